#!/bin/bash
# usage: tools_raw.sh <pkg> <run-regex> [checks] [seed]  — builds and runs one unit, raw output
set -e
B=$(ls -d /verif/.build/*/ | head -1)
export GOFLAGS=-mod=mod GOPROXY=off GOSUMDB=off GOTOOLCHAIN=local
cd /repo && go test -c -vet=off -tags verif,verifwb -modfile=$B/go.mod -overlay=$B/overlay.json -o /dev/shm/raw.test $1
mkdir -p /dev/shm/raw && cd /dev/shm/raw && VERIF_SCRATCH=/dev/shm/raw VERIF_SEED_EFFECTIVE=${4:-1} VERIF_KNOWN=/verif/known-findings.json VERIF_REPLAY_DIR=/dev/shm/raw/replays /dev/shm/raw.test -test.run "$2" -rapid.checks=${3:-100} -rapid.seed=${4:-1} -rapid.nofailfile -test.v 2>/dev/null

#!/bin/bash
# usage: tools_raw.sh <pkg> <run-regex> [checks] [seed]  — builds and runs one unit, raw output
set -e
B=$(for d in /verif/.build/*/; do grep -q "=> /repo" $d/go.mod 2>/dev/null && echo $d && break; done)
export GOFLAGS=-mod=mod GOPROXY=off GOSUMDB=off GOTOOLCHAIN=local
cd /repo && go test -c -vet=off -tags verif,verifwb -modfile=$B/go.mod -overlay=$B/overlay.json -o /dev/shm/raw.test $1
mkdir -p /dev/shm/raw && cd /dev/shm/raw && VERIF_SCRATCH=/dev/shm/raw VERIF_SEED_EFFECTIVE=${4:-1} VERIF_KNOWN=${VERIF_KNOWN:-/verif/known-findings.json} VERIF_REPLAY_DIR=/dev/shm/raw/replays /dev/shm/raw.test -test.run "$2" -rapid.checks=${3:-100} -rapid.seed=${4:-1} -rapid.nofailfile -test.v 2>${RAW_STDERR:-/dev/null}

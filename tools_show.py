#!/usr/bin/env python3
import json,sys
r=json.load(open(sys.argv[1])); c=r['case']
print(r['violation']['clause']); print(r['violation']['signature']); print(r['violation']['detail'][:1500])
if 'topo' in c:
    print(c['topo']['shape']); print('nodes',[(n['id'],n['mem_kb'],n.get('movable'),n['home']) for n in c['topo']['nodes']])
    print('iso',[x['id'] for x in c['topo']['cpus'] if x.get('isolated')],'offline',[x['id'] for x in c['topo']['cpus'] if not x['online']])
print(json.dumps(c.get('config')))
for i,o in enumerate(c.get('ops',[])): print(i,json.dumps(o))

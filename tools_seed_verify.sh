#!/bin/bash
# usage: tools_seed_verify.sh <outdir> <demo-file> <dest-path-in-repo> <go test args for the demo...>
# Confirms a seeded change independently, in a fresh scratch worktree of /repo HEAD:
#   1. patch applies, go build ./... succeeds
#   2. the pinned baseline suite (stable_pass list) still passes with the patch
#   3. the demonstration fails with the patch and passes without it
set -u
export GOFLAGS=-mod=mod GOPROXY=off GOSUMDB=off GOTOOLCHAIN=local
OUT=$1; DEMO=$2; DEST=$3; shift 3
WT=$(mktemp -d /tmp/vseed-XXXXXX); rmdir "$WT"
git -C /repo worktree add --detach "$WT" HEAD >/dev/null 2>&1 || { echo "worktree failed"; exit 3; }
trap 'git -C /repo worktree remove --force "$WT" >/dev/null 2>&1; rm -rf "$WT"' EXIT
cd "$WT"
git apply "$OUT/patch.diff" || { echo "RESULT patch-does-not-apply"; exit 1; }
go build ./... 2>&1 | tail -5
[ ${PIPESTATUS[0]} -eq 0 ] || { echo "RESULT build-fails"; exit 1; }
(cd pkg/topology && go build ./... ) || { echo "RESULT build-fails (pkg/topology)"; exit 1; }
echo "build ok"
J=$(mktemp /tmp/vseed-json-XXXXXX)
for m in $(cat /w/out/gomods.txt); do
  (cd "$WT/$m" && go test -mod=mod -json -vet=off -count=1 -timeout 25m ./...) >> "$J" 2>/dev/null
done
python3 - "$J" <<'PY'
import json,sys
passed=set()
for l in open(sys.argv[1]):
    try: e=json.loads(l)
    except Exception: continue
    if e.get("Action")=="pass" and e.get("Test"): passed.add(e["Package"]+"::"+e["Test"])
stable=json.load(open("/root/.vp/BASELINE.json"))["stable_pass"]
missing=[t for t in stable if t not in passed]
print("baseline with patch: %d/%d stable tests pass"%(len(stable)-len(missing),len(stable)))
for t in missing[:20]: print("  MISSING",t)
open(sys.argv[1]+".rc","w").write("1" if missing else "0")
PY
BRC=$(cat "$J.rc"); rm -f "$J" "$J.rc"
cp "$OUT/$DEMO" "$WT/$DEST"
go test -vet=off -count=1 "$@" > /tmp/vseed-demo-with.$$ 2>&1; WITH=$?
git apply -R "$OUT/patch.diff"
go test -vet=off -count=1 "$@" > /tmp/vseed-demo-without.$$ 2>&1; WITHOUT=$?
echo "demo with patch: exit $WITH ; without patch: exit $WITHOUT"
grep -E "^(--- FAIL|FAIL|ok)" /tmp/vseed-demo-with.$$ | head -5
grep -E "^(--- FAIL|FAIL|ok)" /tmp/vseed-demo-without.$$ | head -5
rm -f /tmp/vseed-demo-with.$$ /tmp/vseed-demo-without.$$
if [ "$BRC" = 0 ] && [ $WITH -ne 0 ] && [ $WITHOUT -eq 0 ]; then echo "RESULT confirmed"; exit 0; fi
echo "RESULT not-confirmed"; exit 1

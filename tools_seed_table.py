#!/usr/bin/env python3
"""Rewrites the seeded-change table in DESIGN.md (between the SEEDED-TABLE markers) from seeded/*/meta.json."""
import json, glob, os, re
rows = []
for f in sorted(glob.glob("/verif/seeded/*/meta.json")):
    m = json.load(open(f))
    rows.append("| `%s` | %s | %s | %s |" % (m["id"], m["breaks_property"], m["needs_to_manifest"].replace("|", "/"),
                                           ", ".join(m["caught_by"]) or "**missed**"))
table = "| seeded change (`seeded/<id>/`) | breaks | needs, in order to manifest | caught by |\n|---|---|---|---|\n" + "\n".join(rows)
p = "/verif/DESIGN.md"
s = open(p).read()
a, b = "<!-- SEEDED-TABLE-BEGIN -->", "<!-- SEEDED-TABLE-END -->"
s = s[:s.index(a) + len(a)] + "\n" + table + "\n" + s[s.index(b):]
open(p, "w").write(s)
print(len(rows), "rows")

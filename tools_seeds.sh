#!/bin/bash
# usage: tools_seeds.sh "<seeds>" <ID>...   — runs quick checks at several seeds, prints one line each
SEEDS=$1; shift
for p in "$@"; do for s in $SEEDS; do
  out=$(VERIF_SEED=$s ./check $p 2>&1 | grep -v "^KNOWN")
  echo "$p seed=$s: $(echo "$out" | grep -E "^(OK|VIOLATION|INCONCLUSIVE)" | head -2 | tr '\n' ' ') $(echo "$out" | grep signature | head -1)"
  if echo "$out" | grep -q VIOLATION; then cp $(echo "$out" | grep -o 'replay=[^ ]*' | head -1 | cut -d= -f2) /tmp/viol-$p-$s.json 2>/dev/null; fi
done; done

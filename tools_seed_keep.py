#!/usr/bin/env python3
"""tools_seed_keep.py <seed-id> <property> <outdir> <demo-file> <dest-path> <caught-by(comma list or 'none')> <needs...>
Copies a confirmed seeded change into /verif/seeded/<seed-id>/ and writes meta.json."""
import json, os, shutil, sys
sid, prop, out, demo, dest, caught = sys.argv[1:7]
needs = " ".join(sys.argv[7:])
d = os.path.join("/verif/seeded", sid)
os.makedirs(d, exist_ok=True)
for f in ("patch.diff", demo, "DEMO.txt", "NOTES.md"):
    if os.path.exists(os.path.join(out, f)):
        shutil.copy(os.path.join(out, f), os.path.join(d, f))
meta = {
    "id": sid, "breaks_property": prop,
    "needs_to_manifest": needs,
    "demonstration": {"file": demo, "place_at": dest},
    "confirmed_by": "tools_seed_verify.sh in a fresh scratch worktree of /repo HEAD: patch applies, go build ./... ok, all 495 stable baseline tests pass with the patch, demonstration fails with the patch and passes without it",
    "checks_run": "tools_mut.sh <ID> --patch patch.diff (scratch worktree with the patch, VERIF_REPO pointing at it; evidence of such runs goes to .work/evidence-scratch)",
    "caught_by": [] if caught == "none" else caught.split(","),
}
json.dump(meta, open(os.path.join(d, "meta.json"), "w"), indent=1)
print("kept", d)

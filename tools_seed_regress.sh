#!/bin/bash
# Runs the quick check of the broken property against every kept seeded change
# (scratch worktree per change) and prints caught / MISSED per change.
# usage: tools_seed_regress.sh [seed]   (VERIF_SEED, default 1)
export VERIF_SEED=${1:-1}
for d in /verif/seeded/*/; do
  id=$(basename $d)
  prop=$(python3 -c "import json;print(json.load(open('$d/meta.json'))['breaks_property'])")
  out=$(/verif/tools_mut.sh $prop --patch $d/patch.diff 2>&1)
  if echo "$out" | grep -q "^exit=1"; then echo "caught  $id ($prop) $(echo "$out" | grep signature | head -1)";
  else echo "MISSED  $id ($prop) $(echo "$out" | tail -2 | tr '\n' ' ')"; fi
done

# Table of checks: which overlay test functions decide which property, with
# which budgets. Read by ./check (driver) and by tools/gen_manifest.py.

# overlay source dir (under /verif) -> package directory inside the repository
OVERLAY_DIRS = {
    "vfkit": "pkg/zzverif/vfkit",
    "overlay/kubernetes": "pkg/kubernetes",
    "overlay/resmgr": "pkg/resmgr",
    "overlay/cache": "pkg/resmgr/cache",
    "overlay/libmem": "pkg/resmgr/lib/memory",
    "overlay/cpuallocator": "pkg/cpuallocator",
    "overlay/sysfs": "pkg/sysfs",
    "overlay/agent": "pkg/agent",
    "overlay/expr": "pkg/apis/resmgr/v1alpha1",
    "overlay/memqos": "cmd/plugins/memory-qos",
    "overlay/memtierd": "cmd/plugins/memtierd",
    "overlay/sgxepc": "cmd/plugins/sgx-epc",
    "overlay/hooks_ta": "cmd/plugins/topology-aware/policy",
    "overlay/hooks_balloons": "cmd/plugins/balloons/policy",
    "overlay/hooks_cpuctl": "pkg/resmgr/control/cpu",
}

FIXTURE = "a generated sysfs fixture tree stands in for real hardware"

PROPS = {}

PROPS["C20"] = {
    "level": "exploration",
    "technique": "exhaustive enumeration of the CPU domain + rapid property testing of memory capacities against reference kubelet formulas (round trip)",
    "rule": "CPU: every request/limit 0..256000 mCPU and every cgroup shares value 2..262144 is enumerated "
            "(non-trivial = value > 0, distinct by construction); quota/period pairs and node memory capacities "
            "in [1MiB, 2^50] are drawn by rapid from 7 shapes (log-uniform, 2^k+-delta, page multiples, primes, GiB "
            "multiples, decimal, small); a capacity is non-trivial when it is not a multiple of 4GiB (the only "
            "family the repository's suite tries); distinct = distinct capacity values / distinct (quota,period) pairs; "
            "cache-level cases are distinct (qos, shares, quota, period, limit, oomadj) tuples with a CPU request or limit",
    "assumptions": ["kubelet encodes requests with MilliCPUToShares/MilliCPUToQuota at the default 100ms period (reference re-implemented in vfkit/kube.go)"],
    "units": [
        {"name": "cpu-exhaustive", "pkg": "./pkg/kubernetes", "run": "^TestVerifC20CPUExhaustive$", "q": 1, "t": 1, "noshard": True},
        {"name": "quota-random", "pkg": "./pkg/kubernetes", "run": "^TestVerifC20Quota$", "q": 20000, "t": 1600000},
        {"name": "memory", "pkg": "./pkg/kubernetes", "run": "^TestVerifC20Memory$", "q": 400, "t": 80000},
        {"name": "cache", "pkg": "./pkg/resmgr/cache", "run": "^TestVerifC20Cache$", "replay_run": "^TestVerifC20CacheReplay$", "q": 1000, "t": 160000},
    ],
    "floor_q": 100, "floor_t": 1000,
}

PROPS["C16"] = {
    "level": "exploration",
    "technique": "rapid-generated hardware models written as sysfs trees; round trip model -> files -> discovery -> accessors, and structural validity predicates over the topology-aware pool tree against the model",
    "rule": "machines are drawn from packages 1-4 x dies 1-2 x NUMA nodes/die 1-2 x L2 groups 1-3 x cores 1-4 x threads 1-2 "
            "(<= 64 CPUs), Linux or sequential numbering, offline/isolated subsets, hybrid P/E clusters, cpufreq/EPP classes, "
            "memory-less CPU nodes, 0-3 CPU-less PMEM/HBM nodes, movable-only nodes, tree/ring/flat distance matrices; a case is "
            "non-trivial when the machine shows >= 2 of {multi-die, SNC, CPU-less node, memory-less CPU node, offline CPUs, "
            "isolated CPUs, hybrid}; distinct = distinct hardware model (hash) (x distinct configuration for the pool-tree part)",
    "assumptions": [FIXTURE, "offline CPUs keep their cpuN/nodeM link (discovery requires it)"],
    "units": [
        {"name": "discovery", "pkg": "./pkg/sysfs", "run": "^TestVerifC16Discovery$", "replay_run": "^TestVerifC16DiscoveryReplay$", "q": 300, "t": 40000},
        {"name": "pool-tree", "pkg": "./pkg/resmgr", "run": "^TestVerifC16Pools$", "replay_run": "^TestVerifC16PoolsReplay$", "q": 300, "t": 40000, "per_proc": 1500},
    ],
    "floor_q": 20, "floor_t": 500,
}

PROPS["C08"] = {
    "level": "exploration",
    "technique": "rapid-generated (topology, candidate set, count, priority, flags) call sequences against the allocator contract (validity predicate on result/set bookkeeping) plus a determinism differential (fresh allocator and repeated call)",
    "rule": "topologies from the C16 generator (incl. hybrid, clusters, cpufreq/EPP priorities) are discovered through the real sysfs code; the candidate "
            "set is all online CPUs, a random subset, online minus holes, or whole NUMA nodes; 1-6 allocate/release calls on the evolving set with count "
            "0..|set|+2, 4 priorities, default or any of the 16 flag combinations; a call is non-trivial when 1 < n < |set|-1 on a set that is not a "
            "union of whole packages; distinct = distinct (machine, set, call) triple",
    "assumptions": [FIXTURE, "ReleaseCpus(from, n) is read as its two call sites use it: *from ends up holding the n released CPUs, the kept ones are returned"],
    "units": [
        {"name": "calls", "pkg": "./pkg/cpuallocator", "run": "^TestVerifC08$", "q": 3000, "t": 480000},
    ],
    "floor_q": 100, "floor_t": 5000,
}

_LIBMEM_RULE = ("node sets of 1-8 nodes (DRAM/PMEM/HBM, capacities 0-20 units, normal/movable, tree/line/ring/flat/random distance matrices, "
                "default or two custom ExpandZone orders) and histories of 1-40 Allocate/GetOffer/Commit(any outstanding offer, arbitrarily late)/"
                "Realloc/Release/Reset operations over 10 request slots with sizes 0-25, arbitrary affinity masks (occasionally invalid), "
                "preferred/strict type masks and priorities BestEffort..Reservation plus arbitrary values; ")

PROPS["C06"] = {
    "level": "exploration",
    "technique": "rapid stateful histories against the public libmem API; oracle = full-state before/after comparison for failed ops and GetOffer, a twin allocator that never sees offers (differential: commit==allocate, offers are pure), and a staleness model counting successful mutations",
    "rule": _LIBMEM_RULE + "a history is non-trivial for C06 when it commits an offer after >= 1 intervening successful mutation, or contains an "
            "Allocate/Realloc that fails with ErrNoMem while other allocations exist (overcommit resolution ran and had to be rolled back); distinct = hash of the whole case",
    "assumptions": ["a successful Realloc that changes nothing is not counted as a mutation; staleness of older offers is not judged after one",
                    "offers that straddle a Reset are not judged"],
    "units": [
        {"name": "histories", "pkg": "./pkg/resmgr/lib/memory", "run": "^TestVerifLibmem$", "replay_run": "^TestVerifLibmemReplay$", "q": 4000, "t": 800000},
        {"name": "overcommit-histories", "pkg": "./pkg/resmgr/lib/memory", "run": "^TestVerifLibmemOvercommit$", "replay_run": "^TestVerifLibmemReplay$", "q": 2000, "t": 400000},
    ],
    "floor_q": 100, "floor_t": 5000,
}

PROPS["C07"] = {
    "level": "exploration",
    "technique": "rapid stateful histories against the public libmem API; oracle = placement validity predicates after every successful operation (capacity of every node subset, strict types, normal memory, superset moves, immovable reservations, exact update map) computed from generator-side capacities",
    "rule": _LIBMEM_RULE + "a history is non-trivial for C07 when some operation returned a non-empty update map (other allocations were moved); distinct = hash of the whole case",
    "assumptions": ["'nodes of the requested types' is read as nodes whose type is in the mask, with or without memory"],
    "units": [
        {"name": "histories", "pkg": "./pkg/resmgr/lib/memory", "run": "^TestVerifLibmem$", "replay_run": "^TestVerifLibmemReplay$", "q": 3000, "t": 600000},
        {"name": "overcommit-histories", "pkg": "./pkg/resmgr/lib/memory", "run": "^TestVerifLibmemOvercommit$", "replay_run": "^TestVerifLibmemReplay$", "q": 4000, "t": 800000},
    ],
    "floor_q": 100, "floor_t": 5000,
}

RESMGR = "./pkg/resmgr"
_HIST_RULE = ("cases = generated machine (vfkit topology model written as sysfs) x generated accepted policy configuration x generated request history "
              "(pods of every QoS class/namespace/annotation set; create/start/update/stop/remove/stop-pod/remove-pod/synchronize/reconfigure/"
              "re-create-by-name, failed creations with or without the runtime's undo) executed against a real in-process resource manager; ")
_HIST_ASSUME = [FIXTURE, "generated runtime follows the containerd lifecycle discipline (pod before containers, create-start-stop-remove, containers stopped before their pod)",
                "NRI objects handed to handlers are deep copies, as a ttrpc server would hand out"]

PROPS["C05"] = {
    "level": "exploration",
    "technique": "rapid stateful request histories against a real in-process resource manager; oracle = runtime reference model (initial values overlaid by every adjustment/update/push) compared field by field with the cache after every reply",
    "rule": _HIST_RULE + "non-trivial = some reply or push carried updates for >= 2 containers other than the request's own; distinct = hash of the whole case",
    "assumptions": _HIST_ASSUME + ["values written by the kubelet through UpdateContainer are not 'told by the plugin' and are not compared until the plugin sets that field"],
    "units": [
        {"name": "ta-histories", "pkg": RESMGR, "run": "^TestVerifC05TA$", "replay_run": "^TestVerifC05Replay$", "q": 200, "t": 40000, "per_proc": 500},
    ],
    "floor_q": 5, "floor_t": 200,
}

def _hist(prop, units, technique, nt_rule, extra_assume=None, floor_q=5, floor_t=200):
    PROPS[prop] = {
        "level": "exploration", "technique": technique,
        "rule": _HIST_RULE + nt_rule + "; distinct = hash of the whole case",
        "assumptions": _HIST_ASSUME + (extra_assume or []),
        "units": units, "floor_q": floor_q, "floor_t": floor_t,
    }

_hist("C01", [{"name": "ta-exclusive", "pkg": RESMGR, "run": "^TestVerifC01$", "replay_run": "^TestVerifC01Replay$", "q": 250, "t": 48000, "per_proc": 500}],
      "rapid stateful request histories on a real topology-aware resource manager; oracle = set-algebra invariants over all live containers after every request (white-box grants + runtime model of told cpusets + advertised zones + configuration)",
      "non-trivial = at least two containers held exclusive CPUs at the same time and a stop/update/re-create/reconfigure/synchronize followed")
_hist("C03", [{"name": "ta-capacity", "pkg": RESMGR, "run": "^TestVerifC03$", "replay_run": "^TestVerifC03Replay$", "q": 700, "t": 48000, "per_proc": 500}],
      "rapid stateful histories steered to fill pools; oracle = capacity ledger invariants per pool subtree + reference implementation of the documented eligibility table + kubelet shares formula",
      "non-trivial = some pool hosting a shared container had < 1 CPU of shared capacity left in its subtree, or an exclusive grant sat at an inner pool whose children host shared containers")
_hist("C04", [{"name": "ta-memory", "pkg": RESMGR, "run": "^TestVerifC04TA$", "replay_run": "^TestVerifC04TAReplay$", "q": 200, "t": 40000, "per_proc": 500}],
      "rapid stateful histories with node-overflowing memory limits on NUMA-rich generated machines, both policies; oracle = told cpuset.mems (runtime model) vs the policy allocator's AssignedZone, node validity against the hardware model, and capacity of every node subset computed from the model",
      "non-trivial = a create/update/cold-start completion changed the memory pinning of a container other than the request's own")
_hist("C09", [{"name": "ta-leaks", "pkg": RESMGR, "run": "^TestVerifC09TA$", "replay_run": "^TestVerifC09TAReplay$", "q": 200, "t": 40000, "per_proc": 500}],
      "rapid stateful histories with failing requests and reconfigure/synchronize while stopped containers are cached, followed by a generated drain; oracle = state after the drain equals a pristine instance of the final configuration, and no grant/membership/memory request ever belongs to a non-live container",
      "non-trivial = the history had >= 1 failed request and >= 1 reconfigure/synchronize while a stopped container was still cached")
_hist("C12", [{"name": "ta-optouts", "pkg": RESMGR, "run": "^TestVerifC12TA$", "replay_run": "^TestVerifC12TAReplay$", "q": 300, "t": 40000, "per_proc": 500}],
      "rapid stateful histories in which a third of the pods carry cpu.preserve/memory.preserve (container, pod or bare form) or pinning is configured off; oracle = every adjustment/update/push addressed to an opted-out container is inspected before it is applied to the runtime model",
      "non-trivial = an opted-out container existed while a later request changed the told cpuset or memory nodes of another container")
_hist("C02", [{"name": "balloons", "pkg": RESMGR, "run": "^TestVerifC02$", "replay_run": "^TestVerifC02Replay$", "q": 250, "t": 48000, "per_proc": 500}],
      "rapid stateful request histories on a real balloons resource manager with generated balloon-type configurations; oracle = partition/confinement/sharing-scope/limit/CPU-class invariants computed from the hardware model, the configuration, advertised zones, white-box balloon snapshot and the runtime model of told cpusets",
      "non-trivial = at least two user-defined balloons were non-empty at once and the history contained both an inflate and a deflate (or balloon deletion)")
def _add_unit(prop, unit):
    PROPS[prop]["units"].append(unit)
_add_unit("C05", {"name": "balloons-histories", "pkg": RESMGR, "run": "^TestVerifC05Balloons$", "replay_run": "^TestVerifC05BalloonsReplay$", "q": 300, "t": 40000, "per_proc": 500})
_add_unit("C04", {"name": "balloons-memory", "pkg": RESMGR, "run": "^TestVerifC04Balloons$", "replay_run": "^TestVerifC04BalloonsReplay$", "q": 200, "t": 40000, "per_proc": 500})
_add_unit("C09", {"name": "balloons-leaks", "pkg": RESMGR, "run": "^TestVerifC09Balloons$", "replay_run": "^TestVerifC09BalloonsReplay$", "q": 200, "t": 40000, "per_proc": 500})
_add_unit("C12", {"name": "balloons-optouts", "pkg": RESMGR, "run": "^TestVerifC12Balloons$", "replay_run": "^TestVerifC12BalloonsReplay$", "q": 350, "t": 40000, "per_proc": 500})
_add_unit("C12", {"name": "ta-optouts-restart", "pkg": RESMGR, "run": "^TestVerifC12RestartTA$", "replay_run": "^TestVerifC11Replay$", "q": 120, "t": 16000, "per_proc": 500})
_add_unit("C12", {"name": "balloons-optouts-restart", "pkg": RESMGR, "run": "^TestVerifC12RestartBalloons$", "replay_run": "^TestVerifC11Replay$", "q": 120, "t": 16000, "per_proc": 500})
_hist("C13", [
    {"name": "identical-ta", "pkg": RESMGR, "run": "^TestVerifC13IdenticalTA$", "replay_run": "^TestVerifC13IdenticalTAReplay$", "q": 120, "t": 24000, "per_proc": 500},
    {"name": "identical-balloons", "pkg": RESMGR, "run": "^TestVerifC13IdenticalBalloons$", "replay_run": "^TestVerifC13IdenticalBalloonsReplay$", "q": 120, "t": 24000, "per_proc": 500},
    {"name": "accepted-ta", "pkg": RESMGR, "run": "^TestVerifC13AcceptedTA$", "replay_run": "^TestVerifC13AcceptedTAReplay$", "q": 120, "t": 24000, "per_proc": 500},
    {"name": "accepted-balloons", "pkg": RESMGR, "run": "^TestVerifC13AcceptedBalloons$", "replay_run": "^TestVerifC13AcceptedBalloonsReplay$", "q": 120, "t": 24000, "per_proc": 500},
    {"name": "rejected-ta", "pkg": RESMGR, "run": "^TestVerifC13RejectedTA$", "replay_run": "^TestVerifC13RejectedReplay$", "q": 120, "t": 16000, "per_proc": 300},
    {"name": "rejected-balloons", "pkg": RESMGR, "run": "^TestVerifC13RejectedBalloons$", "replay_run": "^TestVerifC13RejectedReplay$", "q": 120, "t": 16000, "per_proc": 300},
  ],
  "rapid stateful histories with configuration updates at generated request boundaries; (a) identical: observables (runtime view, cache view, zones) before/after re-delivering the configuration in effect; (b) rejected: sequential twin executions with and without the rejected update (differential, guarded by a determinism self-check); (c) accepted: all invariant libraries of C01-C05/C09 evaluated on the step of the update under the new configuration",
  "non-trivial = (a)/(c) the update arrived with >= 2 live containers (one holding exclusive CPUs or sitting in a user balloon for (a)); (b) the injected update (one of 6-8 rejection kinds per policy) was rejected",
  ["twin executions run one after the other in the same process (topology-aware keeps options in package-level variables)"])

PROPS["C10"] = {
    "level": "fault_enumeration",
    "technique": "rapid-generated cache contents with a save/reload round trip over every public getter; fault injection into Save with strace (SIGKILL or errno at the k-th openat/write/close/renameat/newfstatat touching the cache files, RLIMIT_FSIZE short writes) checked against previous/new snapshot, with an in-process retry of the failed save whose success must be what a restart loads; generated file types and modes for the refusal rule",
    "rule": "round trip: 0-4 pods x 0-6 containers with optional sub-messages present/absent, labels, annotations incl. affinities, mounts, devices, hugepage limits, unified, followed by Set*/tag/state/resource-update mutations and policy entries of 9 types; non-trivial = >=1 container and >=1 mutation or policy entry. "
            "crash: a helper process loads the directory, applies a change and saves under an injected fault (syscall x action x k, or a file size limit b); non-trivial = the helper did not finish cleanly (the fault hit) and the old and new snapshots differ. "
            "refusal: state dir / cache file / containers dir of kind absent|file|dir|symlink|fifo with 16 modes; non-trivial = the state dir exists. distinct = hash of the case",
    "assumptions": ["crash points are system-call boundaries of the calls touching <state>/cache and <state>/cache.saving (strace -P), plus byte offsets through RLIMIT_FSIZE; between system calls the on-disk state does not change",
                    "durability across power loss (fsync) is outside the statement", "ctime and pending marks are not persisted and not compared"],
    "units": [
        {"name": "roundtrip", "pkg": "./pkg/resmgr/cache", "run": "^TestVerifC10RoundTrip$", "replay_run": "^TestVerifC10Replay$", "q": 400, "t": 80000},
        {"name": "crash", "pkg": "./pkg/resmgr/cache", "run": "^TestVerifC10Crash$", "replay_run": "^TestVerifC10Replay$", "q": 120, "t": 24000},
        {"name": "refusal", "pkg": "./pkg/resmgr/cache", "run": "^TestVerifC10Refusal$", "replay_run": "^TestVerifC10Replay$", "q": 300, "t": 48000},
    ],
    "floor_q": 20, "floor_t": 1000,
}

PROPS["C11"] = {
    "level": "fault_enumeration",
    "technique": "rapid-generated pairs (request history cut at a request boundary or by SIGKILL at the k-th cache-file rename via strace, runtime truth mutated while the plugin is down); a fresh resource manager on the same state directory synchronizes with the generated truth and all allocation invariants plus purge/coverage predicates are evaluated; repeated restarts",
    "rule": _HIST_RULE + "the plugin is then restarted 1-3 times on the persisted state; before each restart the runtime truth is changed by 0-5 generated edits (containers gone, started, stopped, pods gone, unknown pods/containers added); "
            "non-trivial = the cut was inside a request (helper killed) or the runtime truth differs from the model at the cut; distinct = hash of the case",
    "assumptions": _HIST_ASSUME + ["a request in flight when the plugin is killed never completed for the runtime (the container it was creating does not exist in the runtime truth)",
                                   "kill points are the renames of <state>/cache (every cache save); between saves the persisted state does not change"],
    "units": [
        {"name": "restart-ta", "pkg": RESMGR, "run": "^TestVerifC11TA$", "replay_run": "^TestVerifC11Replay$", "q": 120, "t": 24000, "per_proc": 400},
        {"name": "restart-balloons", "pkg": RESMGR, "run": "^TestVerifC11Balloons$", "replay_run": "^TestVerifC11Replay$", "q": 120, "t": 24000, "per_proc": 400},
        {"name": "kill-ta", "pkg": RESMGR, "run": "^TestVerifC11KillTA$", "replay_run": "^TestVerifC11Replay$", "q": 30, "t": 8000, "per_proc": 200},
        {"name": "kill-balloons", "pkg": RESMGR, "run": "^TestVerifC11KillBalloons$", "replay_run": "^TestVerifC11Replay$", "q": 30, "t": 8000, "per_proc": 200},
    ],
    "floor_q": 10, "floor_t": 500,
}

PROPS["C14"] = {
    "level": "exploration",
    "technique": "rapid-generated hostile NRI event sequences (unknown/removed/duplicate ids, out-of-order lifecycle, absent optional sub-messages, malformed annotation values) against a real in-process resource manager and against the three side plugins; oracle = no handler panics (recover) and a fresh valid request is still served after a drain; native go fuzzing of annotation values in the thorough tier",
    "rule": "resource manager (both policies): 4-40 handler calls over RunPodSandbox/CreateContainer/StartContainer/UpdateContainer/StopContainer/RemoveContainer/StopPodSandbox/RemovePodSandbox/Synchronize with ids drawn from known, unknown and duplicated ones, 8 shapes of absent sub-messages, 16 interpreted annotation keys x 3 forms x 31 hostile values and 13 affinity strings; side plugins: CreateContainer/Configure (and Start/Stop for memtierd) with generated classes, configurations and the same hostile values; "
            "non-trivial = at least one handler returned an error or was addressed to an unknown id (side plugins: an interpreted annotation key was present); distinct = hash of the case",
    "assumptions": [FIXTURE, "log.Fatal / os.Exit inside a handler would end the test process and is reported as inconclusive (exit 2), not as a violation"],
    "units": [
        {"name": "hostile-ta", "pkg": RESMGR, "run": "^TestVerifC14TA$", "replay_run": "^TestVerifC14Replay$", "q": 500, "t": 60000, "per_proc": 600},
        {"name": "hostile-balloons", "pkg": RESMGR, "run": "^TestVerifC14Balloons$", "replay_run": "^TestVerifC14Replay$", "q": 600, "t": 60000, "per_proc": 600},
        {"name": "memory-qos", "pkg": "./cmd/plugins/memory-qos", "run": "^TestVerifSideMemoryQos$", "replay_run": "^TestVerifSideMemoryQosReplay$", "q": 1500, "t": 160000},
        {"name": "memtierd", "pkg": "./cmd/plugins/memtierd", "run": "^TestVerifSideMemtierd$", "replay_run": "^TestVerifSideMemtierdReplay$", "q": 1500, "t": 160000},
        {"name": "sgx-epc", "pkg": "./cmd/plugins/sgx-epc", "run": "^TestVerifSideSgxEpc$", "replay_run": "^TestVerifSideSgxEpcReplay$", "q": 1500, "t": 160000},
        {"name": "fuzz-annotations", "pkg": "./pkg/resmgr", "fuzz": "FuzzVerifC14Annotations", "fuzztime": 120},
    ],
    "floor_q": 20, "floor_t": 1000,
}

PROPS["C18"] = {
    "level": "exploration",
    "technique": "rapid-generated annotation maps (all subsets of the three forms per key, container names that are prefixes/suffixes of each other or contain separators, annotations for other containers), each evaluated 6-8 times with the map rebuilt in different insertion orders; oracle = reference precedence written from the plugins' documentation",
    "rule": "subjects: resource-policy cache GetEffectiveAnnotation (through a real cache), sgx-epc parseEpcLimit/CreateContainer, memory-qos and memtierd CreateContainer (Unified map) with generated classes and configuration; "
            "non-trivial = at least two forms (container-specific, pod-wide, bare) present for the same key; distinct = hash of the case",
    "assumptions": ["Go randomises map iteration per range statement: repeating each evaluation over maps rebuilt in opposite insertion orders samples iteration orders, it does not enumerate them"],
    "units": [
        {"name": "cache", "pkg": "./pkg/resmgr/cache", "run": "^TestVerifC18Cache$", "replay_run": "^TestVerifC18CacheReplay$", "q": 2000, "t": 320000},
        {"name": "memory-qos", "pkg": "./cmd/plugins/memory-qos", "run": "^TestVerifSideMemoryQos$", "replay_run": "^TestVerifSideMemoryQosReplay$", "q": 2000, "t": 320000},
        {"name": "memtierd", "pkg": "./cmd/plugins/memtierd", "run": "^TestVerifSideMemtierd$", "replay_run": "^TestVerifSideMemtierdReplay$", "q": 2000, "t": 320000},
        {"name": "sgx-epc", "pkg": "./cmd/plugins/sgx-epc", "run": "^TestVerifSideSgxEpc$", "replay_run": "^TestVerifSideSgxEpcReplay$", "q": 2000, "t": 320000},
    ],
    "floor_q": 100, "floor_t": 5000,
}

PROPS["C19"] = {
    "level": "exploration",
    "technique": "rapid-generated (subject metadata, key, operator, values) tuples and key-reference templates evaluated against real cache containers; oracles = negation-pair metamorphic relation, a reference key resolver + the documented operator table (differential), 'validated implies no panic'; balloon-type selection compared with a reference selector over generated type lists",
    "rule": "expressions unit: subjects are resmgr Expression.Validate/Evaluate/KeyValue and container Expand through a real cache pod+container, and pod affinity annotations; non-trivial = the expression is accepted by validation and its key resolves for the subject (so operators see a value). balloon-types unit: request histories on a real balloons resource manager whose generated type lists carry 0-2 match expressions (11 keys incl. joint keys, all operators, globs) and 0-2 namespace globs per type, explicit reserved/default types at generated list positions, reservedPoolNamespaces, balloon annotations in all three forms incl. unknown names; after every request every container sitting in a balloon is compared with a reference selector; non-trivial = containers were placed through >= 3 different (rule, type-kind) combinations, one of them a user-defined type chosen by expression or namespace. distinct = hash of the case",
    "assumptions": ["the undocumented '*' wildcard value of Equals/In is not judged by the operator table (the other clauses still apply to it)"],
    "units": [
        {"name": "expressions", "pkg": "./pkg/resmgr/cache", "run": "^TestVerifC19Expressions$", "replay_run": "^TestVerifC19ExpressionsReplay$", "q": 20000, "t": 3200000},
        {"name": "balloon-types", "pkg": "./pkg/resmgr", "run": "^TestVerifC19Types$", "replay_run": "^TestVerifC19TypesReplay$", "q": 300, "t": 48000, "per_proc": 500},
        {"name": "fuzz-expressions", "pkg": "./pkg/resmgr/cache", "fuzz": "FuzzVerifC19", "fuzztime": 90},
    ],
    "floor_q": 1000, "floor_t": 50000,
}

PROPS["C17"] = {
    "level": "exploration",
    "technique": "rapid-generated watch-event histories (add/modify/delete on the node-specific and group/default streams, duplicates, same-generation re-deliveries, other UIDs, invalid and plugin-refused configurations) fed to a real Agent; oracle = reference model of what the events say (node, group) and invariants over the recorded notify calls",
    "rule": "direct unit: events are dispatched to Agent.updateNodeConfig/updateGroupConfig exactly as Agent.Start does; non-trivial = the history had a group/default update while a node-specific configuration existed and a deletion of the node-specific configuration that fell back to an existing group configuration; distinct = hash of the case",
    "assumptions": ["validity is a function of the resource version (UID, generation), as in a cluster", "the fatal flag of the notify callback (process exit) is never raised"],
    "units": [
        {"name": "direct", "pkg": "./pkg/agent", "run": "^TestVerifC17Direct$", "replay_run": "^TestVerifC17DirectReplay$", "q": 30000, "t": 4800000},
        {"name": "event-loop", "pkg": "./pkg/agent", "go": "go1.26.8", "run": "^TestVerifC17Loop$", "replay_run": "^TestVerifC17LoopReplay$", "q": 1500, "t": 240000},
    ],
    "floor_q": 1000, "floor_t": 50000,
}

_hist("C15", [
    {"name": "ta-concurrent", "pkg": RESMGR, "race": True, "run": "^TestVerifC15TA$", "replay_run": "^TestVerifC15TAReplay$", "q": 60, "t": 8000, "per_proc": 250},
    {"name": "balloons-concurrent", "pkg": RESMGR, "race": True, "run": "^TestVerifC15Balloons$", "replay_run": "^TestVerifC15BalloonsReplay$", "q": 60, "t": 8000, "per_proc": 250},
    {"name": "pod-resources", "pkg": "./pkg/resmgr/cache", "race": True, "run": "^TestVerifC15Fetch$", "replay_run": "^TestVerifC15FetchReplay$", "q": 1500, "t": 240000},
  ],
  "rapid-generated histories with concurrent phases: 2-5 lifecycle lanes (each walks its own new pod through a generated prefix of run/create/start/update/stop/remove/stop-pod/remove-pod), update lanes on distinct existing containers, a configuration update lane and (in phases without lifecycle lanes) a Synchronize, all released at once from separate goroutines with generated scheduler yields; binary built with the Go race detector whose reports are read back after every phase; oracles = no race report, completion (deadlock watchdog), no unsolicited update sent from inside a sequentially delivered request or with the resource manager lock held (model of the runtime-side NRI adaptation lock), cache membership equals the runtime's, every cached decision was delivered in some reply of the phase, and all invariant libraries of C01-C05/C09 after the phase and after every later sequential request",
  "non-trivial = a phase ran >= 3 lanes and >= 6 requests concurrently",
  ["the Go scheduler, not the harness, picks the interleaving; the race detector judges happens-before rather than the observed order, so unsynchronised access pairs are reported whenever both accesses occur in a phase", "a phase that does not finish within 180 s with a goroutine blocked on a lock or channel counts as a deadlock"],
  floor_q=5, floor_t=100)

package vfkit

import (
	"fmt"
	"sort"
	"strconv"
	"strings"
)

// IDSet is an own, deliberately simple integer-set type (independent of
// pkg/utils/cpuset) used on the oracle side.
type IDSet map[int]struct{}

func NewIDSet(ids ...int) IDSet {
	s := IDSet{}
	for _, i := range ids {
		s[i] = struct{}{}
	}
	return s
}

// ParseIDSet parses a Linux list string such as "0-3,8,10-11". Empty = empty set.
func ParseIDSet(str string) (IDSet, error) {
	s := IDSet{}
	str = strings.TrimSpace(str)
	if str == "" {
		return s, nil
	}
	for _, part := range strings.Split(str, ",") {
		part = strings.TrimSpace(part)
		if part == "" {
			continue
		}
		if i := strings.IndexByte(part, '-'); i > 0 {
			lo, err1 := strconv.Atoi(part[:i])
			hi, err2 := strconv.Atoi(part[i+1:])
			if err1 != nil || err2 != nil || hi < lo {
				return nil, fmt.Errorf("bad range %q", part)
			}
			for k := lo; k <= hi; k++ {
				s[k] = struct{}{}
			}
		} else {
			k, err := strconv.Atoi(part)
			if err != nil {
				return nil, fmt.Errorf("bad id %q", part)
			}
			s[k] = struct{}{}
		}
	}
	return s, nil
}

// MustParseIDSet panics on malformed input (harness-internal strings only).
func MustParseIDSet(str string) IDSet {
	s, err := ParseIDSet(str)
	if err != nil {
		panic(err)
	}
	return s
}

func (s IDSet) Sorted() []int {
	out := make([]int, 0, len(s))
	for k := range s {
		out = append(out, k)
	}
	sort.Ints(out)
	return out
}

func (s IDSet) Has(i int) bool { _, ok := s[i]; return ok }
func (s IDSet) Size() int      { return len(s) }
func (s IDSet) Empty() bool    { return len(s) == 0 }
func (s IDSet) Add(ids ...int) IDSet {
	for _, i := range ids {
		s[i] = struct{}{}
	}
	return s
}

func (s IDSet) Clone() IDSet {
	o := IDSet{}
	for k := range s {
		o[k] = struct{}{}
	}
	return o
}

func (s IDSet) Union(o IDSet) IDSet {
	r := s.Clone()
	for k := range o {
		r[k] = struct{}{}
	}
	return r
}

func (s IDSet) Intersect(o IDSet) IDSet {
	r := IDSet{}
	for k := range s {
		if _, ok := o[k]; ok {
			r[k] = struct{}{}
		}
	}
	return r
}

func (s IDSet) Minus(o IDSet) IDSet {
	r := IDSet{}
	for k := range s {
		if _, ok := o[k]; !ok {
			r[k] = struct{}{}
		}
	}
	return r
}

func (s IDSet) SubsetOf(o IDSet) bool {
	for k := range s {
		if _, ok := o[k]; !ok {
			return false
		}
	}
	return true
}

func (s IDSet) Equal(o IDSet) bool { return len(s) == len(o) && s.SubsetOf(o) }

func (s IDSet) Disjoint(o IDSet) bool {
	for k := range s {
		if _, ok := o[k]; ok {
			return false
		}
	}
	return true
}

// String prints the canonical Linux list form.
func (s IDSet) String() string {
	ids := s.Sorted()
	var b strings.Builder
	for i := 0; i < len(ids); {
		j := i
		for j+1 < len(ids) && ids[j+1] == ids[j]+1 {
			j++
		}
		if b.Len() > 0 {
			b.WriteByte(',')
		}
		if j == i {
			b.WriteString(strconv.Itoa(ids[i]))
		} else {
			fmt.Fprintf(&b, "%d-%d", ids[i], ids[j])
		}
		i = j + 1
	}
	return b.String()
}

// MarshalJSON prints the set as its list string (compact replay files).
func (s IDSet) MarshalJSON() ([]byte, error) { return []byte(strconv.Quote(s.String())), nil }

func (s *IDSet) UnmarshalJSON(b []byte) error {
	str, err := strconv.Unquote(string(b))
	if err != nil {
		return err
	}
	p, err := ParseIDSet(str)
	if err != nil {
		return err
	}
	*s = p
	return nil
}

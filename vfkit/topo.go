package vfkit

import (
	"fmt"
	"os"
	"path/filepath"
	"sort"
	"strings"
	"sync"

	"pgregory.net/rapid"
)

// TCPU is one logical CPU of the hardware model.
type TCPU struct {
	ID       int    `json:"id"`
	Pkg      int    `json:"pkg"`
	Die      int    `json:"die"`
	Cluster  int    `json:"cluster"`
	Node     int    `json:"node"`
	Core     int    `json:"core"` // core_id, unique within the package
	L2       int    `json:"l2"`   // system-wide L2 cache id
	L3       int    `json:"l3"`   // system-wide L3 cache id
	Online   bool   `json:"online"`
	Isolated bool   `json:"isolated,omitempty"`
	ECore    bool   `json:"ecore,omitempty"`
	BaseFreq uint64 `json:"basefreq,omitempty"` // kHz, 0 = no cpufreq/base_frequency
	EPP      string `json:"epp,omitempty"`      // "" = no energy_performance_preference
}

// TNode is one NUMA node of the hardware model.
type TNode struct {
	ID      int    `json:"id"`
	MemKB   uint64 `json:"mem_kb"` // 0 = node without memory
	FreeKB  uint64 `json:"free_kb"`
	Movable bool   `json:"movable,omitempty"` // has memory, but none in a normal zone
	Home    int    `json:"home"`              // CPU-less nodes: the CPU node they sit next to; -1 otherwise
}

// Topo is a hardware model: what a machine's sysfs describes.
type Topo struct {
	CPUs   []TCPU  `json:"cpus"`
	Nodes  []TNode `json:"nodes"`
	Dist   [][]int `json:"dist"`
	Hybrid bool    `json:"hybrid,omitempty"`
	L3Per  string  `json:"l3per"` // "die" or "node"
	Shape  string  `json:"shape"`
}

// TopoOpts steers the generator.
type TopoOpts struct {
	MaxCPUs      int
	MinCPUs      int
	NoOffline    bool
	NoIsolated   bool
	WantIsolated bool // always try to isolate some cores
	NoSpecial    bool // no CPU-less nodes
	NoMemoryless bool
	NoHybrid     bool
	AlwaysL2     bool
	MaxPkgs      int
	SmallMem     bool // node sizes of a few hundred MiB .. few GiB so that workloads overflow
	MaxMemNodes  int  // bound on the number of nodes with memory (0 = no bound)
}

// GenTopo draws a hardware model.
func GenTopo(t *rapid.T, o TopoOpts) *Topo {
	if o.MaxCPUs == 0 {
		o.MaxCPUs = 64
	}
	if o.MinCPUs == 0 {
		o.MinCPUs = 2
	}
	if o.MaxPkgs == 0 {
		o.MaxPkgs = 4
	}
	npkg := rapid.SampledFrom([]int{1, 1, 1, 2, 2, 2, 3, 4}).Draw(t, "pkgs")
	if npkg > o.MaxPkgs {
		npkg = o.MaxPkgs
	}
	ndie := rapid.SampledFrom([]int{1, 1, 1, 2}).Draw(t, "dies")
	nnode := rapid.SampledFrom([]int{1, 1, 2}).Draw(t, "nodesPerDie")
	nl2 := rapid.IntRange(1, 3).Draw(t, "l2PerNode")
	ncore := rapid.IntRange(1, 4).Draw(t, "coresPerL2")
	nthr := rapid.IntRange(1, 2).Draw(t, "threads")
	for npkg*ndie*nnode*nl2*ncore*nthr > o.MaxCPUs {
		switch {
		case ncore > 1:
			ncore--
		case nl2 > 1:
			nl2--
		case nnode > 1:
			nnode--
		case ndie > 1:
			ndie--
		case nthr > 1:
			nthr--
		default:
			npkg--
		}
	}
	for npkg*ndie*nnode*nl2*ncore*nthr < o.MinCPUs {
		ncore++
	}
	hybrid := !o.NoHybrid && rapid.IntRange(0, 5).Draw(t, "hybrid") == 0
	linuxNumbering := rapid.Bool().Draw(t, "linuxNumbering")
	l3per := rapid.SampledFrom([]string{"die", "die", "node"}).Draw(t, "l3per")

	type core struct {
		pkg, die, node, l2, l3, coreID, cluster int
		threads                                 int
		ecore                                   bool
	}
	var cores []core
	nodeID, l2ID, l3ID := 0, 0, 0
	for p := 0; p < npkg; p++ {
		coreID := 0
		cluster := 0
		for d := 0; d < ndie; d++ {
			dieL3 := l3ID
			if l3per == "die" {
				l3ID++
			}
			for n := 0; n < nnode; n++ {
				nl3 := dieL3
				if l3per == "node" {
					nl3 = l3ID
					l3ID++
				}
				for g := 0; g < nl2; g++ {
					ecore := false
					if hybrid {
						// the last L2 group(s) of each node may be E-core clusters
						ecore = g == nl2-1 && nl2 > 1 || (nl2 == 1 && rapid.IntRange(0, 2).Draw(t, "egroup") == 0)
					}
					for c := 0; c < ncore; c++ {
						th := nthr
						if ecore {
							th = 1
						}
						cores = append(cores, core{pkg: p, die: d, node: nodeID, l2: l2ID, l3: nl3,
							coreID: coreID, cluster: cluster, threads: th, ecore: ecore})
						coreID++
					}
					l2ID++
					cluster++
				}
				nodeID++
			}
		}
	}
	// hybrid sanity: at least one P core must remain
	if hybrid {
		anyP := false
		for _, c := range cores {
			if !c.ecore {
				anyP = true
			}
		}
		if !anyP {
			for i := range cores {
				cores[i].ecore = false
			}
			hybrid = false
		}
	}

	topo := &Topo{Hybrid: hybrid, L3Per: l3per}
	add := func(c core) {
		topo.CPUs = append(topo.CPUs, TCPU{ID: len(topo.CPUs), Pkg: c.pkg, Die: c.die, Cluster: c.cluster,
			Node: c.node, Core: c.coreID, L2: c.l2, L3: c.l3, Online: true, ECore: c.ecore})
	}
	if linuxNumbering {
		for th := 0; th < 2; th++ {
			for _, c := range cores {
				if th < c.threads {
					add(c)
				}
			}
		}
	} else {
		for _, c := range cores {
			for th := 0; th < c.threads; th++ {
				add(c)
			}
		}
	}
	ncpu := len(topo.CPUs)
	nCPUNodes := nodeID

	// offline CPUs: keep at least one online CPU per NUMA node
	if !o.NoOffline && ncpu > 2 && rapid.IntRange(0, 3).Draw(t, "anyOffline") == 0 {
		k := rapid.IntRange(1, max(1, ncpu/4)).Draw(t, "nOffline")
		for i := 0; i < k; i++ {
			id := rapid.IntRange(0, ncpu-1).Draw(t, "offline")
			left := 0
			for _, c := range topo.CPUs {
				if c.Node == topo.CPUs[id].Node && c.Online && c.ID != id {
					left++
				}
			}
			if left > 0 {
				topo.CPUs[id].Online = false
			}
		}
	}
	// isolated CPUs: whole cores, never more than half of a node's online CPUs
	if !o.NoIsolated && ncpu >= 4 && (rapid.IntRange(0, 2).Draw(t, "anyIsolated") == 0 || o.WantIsolated) {
		k := rapid.IntRange(1, max(1, ncpu/8)).Draw(t, "nIsolatedCores")
		for i := 0; i < k; i++ {
			id := rapid.IntRange(0, ncpu-1).Draw(t, "isolated")
			sib := topo.ThreadsOf(id)
			nodeOnline, nodeIso := 0, 0
			for _, c := range topo.CPUs {
				if c.Node == topo.CPUs[id].Node && c.Online {
					nodeOnline++
					if c.Isolated {
						nodeIso++
					}
				}
			}
			if !topo.CPUs[id].Online || 2*(nodeIso+sib.Size()) > nodeOnline {
				continue
			}
			for _, s := range sib.Sorted() {
				topo.CPUs[s].Isolated = true
			}
		}
	}
	// cpufreq-derived priority classes
	switch rapid.IntRange(0, 3).Draw(t, "freqMode") {
	case 1: // two base-frequency bins, per core
		for _, c := range cores {
			_ = c
		}
		hi := rapid.IntRange(1, 3).Draw(t, "hiEvery")
		for i := range topo.CPUs {
			f := uint64(2000000)
			if (topo.CPUs[i].Core+topo.CPUs[i].Pkg)%(hi+1) == 0 {
				f = 2800000
			}
			topo.CPUs[i].BaseFreq = f
		}
	case 2: // EPP classes
		every := rapid.IntRange(1, 3).Draw(t, "eppEvery")
		for i := range topo.CPUs {
			e := "balance_power"
			if topo.CPUs[i].Core%(every+1) == 0 {
				e = "performance"
			}
			topo.CPUs[i].EPP = e
		}
	}

	// memory
	GiB := uint64(1) << 20 // in kB
	sizes := []uint64{1 * GiB, 2 * GiB, 4 * GiB, 8 * GiB, 16 * GiB, 64 * GiB}
	if o.SmallMem {
		sizes = []uint64{GiB / 4, GiB / 2, GiB, 2 * GiB, 3 * GiB}
	}
	uniform := rapid.Bool().Draw(t, "uniformMem")
	base := rapid.SampledFrom(sizes).Draw(t, "memBase")
	memless := -1
	if !o.NoMemoryless && nCPUNodes >= 2 && rapid.IntRange(0, 6).Draw(t, "anyMemoryless") == 0 {
		memless = rapid.IntRange(0, nCPUNodes-1).Draw(t, "memoryless")
	}
	var dramTotal, dramCnt uint64
	for n := 0; n < nCPUNodes; n++ {
		sz := base
		if !uniform {
			sz = rapid.SampledFrom(sizes).Draw(t, "mem")
		}
		if n == memless {
			sz = 0
		}
		free := sz - sz/uint64(rapid.IntRange(2, 50).Draw(t, "usedFrac"))
		topo.Nodes = append(topo.Nodes, TNode{ID: n, MemKB: sz, FreeKB: free, Home: -1})
		if sz > 0 {
			dramTotal += sz
			dramCnt++
		}
	}
	nspecial := 0
	if !o.NoSpecial && dramCnt > 0 {
		nspecial = rapid.SampledFrom([]int{0, 0, 0, 1, 1, 2, 3}).Draw(t, "special")
	}
	if o.MaxMemNodes > 0 && int(dramCnt)+nspecial > o.MaxMemNodes {
		nspecial = max(0, o.MaxMemNodes-int(dramCnt))
	}
	avg := uint64(0)
	if dramCnt > 0 {
		avg = dramTotal / dramCnt
	}
	for i := 0; i < nspecial; i++ {
		home := rapid.IntRange(0, nCPUNodes-1).Draw(t, "home")
		var sz uint64
		if rapid.Bool().Draw(t, "pmem") {
			sz = avg * 4
		} else {
			sz = avg / 4
		}
		if sz == 0 {
			sz = 1024
		}
		mov := rapid.IntRange(0, 3).Draw(t, "movable") == 0
		topo.Nodes = append(topo.Nodes, TNode{ID: nCPUNodes + i, MemKB: sz, FreeKB: sz, Movable: mov, Home: home})
	}

	// distances: tree metric over package/die/node, CPU-less nodes hang off their home
	nn := len(topo.Nodes)
	flat := rapid.IntRange(0, 9).Draw(t, "flatDistances") == 0
	ring := npkg == 4 && rapid.Bool().Draw(t, "ring")
	pkgOfNode := map[int]int{}
	dieOfNode := map[int]int{}
	for _, c := range topo.CPUs {
		pkgOfNode[c.Node] = c.Pkg
		dieOfNode[c.Node] = c.Die
	}
	cpuDist := func(a, b int) int {
		switch {
		case a == b:
			return 10
		case flat:
			return 20
		case pkgOfNode[a] == pkgOfNode[b] && dieOfNode[a] == dieOfNode[b]:
			return 11
		case pkgOfNode[a] == pkgOfNode[b]:
			return 14
		case ring:
			d := pkgOfNode[a] - pkgOfNode[b]
			if d < 0 {
				d = -d
			}
			if d == 2 {
				return 31
			}
			return 21
		default:
			return 21
		}
	}
	topo.Dist = make([][]int, nn)
	for i := range topo.Dist {
		topo.Dist[i] = make([]int, nn)
	}
	for i := 0; i < nn; i++ {
		for j := 0; j < nn; j++ {
			hi, hj := i, j
			extra := 0
			if topo.Nodes[i].Home >= 0 {
				hi = topo.Nodes[i].Home
				extra += 7
			}
			if topo.Nodes[j].Home >= 0 {
				hj = topo.Nodes[j].Home
				extra += 7
			}
			switch {
			case i == j:
				topo.Dist[i][j] = 10
			case flat:
				topo.Dist[i][j] = 20
			default:
				topo.Dist[i][j] = cpuDist(hi, hj) + extra
			}
		}
	}
	topo.Shape = fmt.Sprintf("%dpkg x %ddie x %dnode x %dl2 x %dcore x %dthr=%dcpu hybrid=%v l3per=%s special=%d linuxnum=%v",
		npkg, ndie, nnode, nl2, ncore, nthr, ncpu, hybrid, l3per, nspecial, linuxNumbering)
	return topo
}

func max(a, b int) int {
	if a > b {
		return a
	}
	return b
}

// ---------------------------------------------------------------------------
// reference queries, answered from the model only
// ---------------------------------------------------------------------------

func (t *Topo) filter(f func(c TCPU) bool) IDSet {
	s := IDSet{}
	for _, c := range t.CPUs {
		if f(c) {
			s[c.ID] = struct{}{}
		}
	}
	return s
}

func (t *Topo) AllCPUs() IDSet     { return t.filter(func(c TCPU) bool { return true }) }
func (t *Topo) OnlineCPUs() IDSet  { return t.filter(func(c TCPU) bool { return c.Online }) }
func (t *Topo) OfflineCPUs() IDSet { return t.filter(func(c TCPU) bool { return !c.Online }) }
func (t *Topo) IsolatedCPUs() IDSet {
	return t.filter(func(c TCPU) bool { return c.Isolated })
}
func (t *Topo) ECores() IDSet { return t.filter(func(c TCPU) bool { return c.ECore && c.Online }) }

// ThreadsOf returns the online hyperthread siblings of a CPU (itself included when online).
func (t *Topo) ThreadsOf(id int) IDSet {
	me := t.CPUs[id]
	return t.filter(func(c TCPU) bool { return c.Online && c.Pkg == me.Pkg && c.Core == me.Core })
}
func (t *Topo) PkgCPUs(p int) IDSet {
	return t.filter(func(c TCPU) bool { return c.Online && c.Pkg == p })
}
func (t *Topo) DieCPUs(p, d int) IDSet {
	return t.filter(func(c TCPU) bool { return c.Online && c.Pkg == p && c.Die == d })
}
func (t *Topo) NodeCPUs(n int) IDSet {
	return t.filter(func(c TCPU) bool { return c.Online && c.Node == n })
}
func (t *Topo) L2CPUs(id int) IDSet {
	me := t.CPUs[id]
	return t.filter(func(c TCPU) bool { return c.Online && c.L2 == me.L2 })
}
func (t *Topo) L3CPUs(id int) IDSet {
	me := t.CPUs[id]
	return t.filter(func(c TCPU) bool { return c.Online && c.L3 == me.L3 })
}

// Packages returns the ids of packages with at least one online CPU.
func (t *Topo) Packages() []int {
	s := IDSet{}
	for _, c := range t.CPUs {
		if c.Online {
			s[c.Pkg] = struct{}{}
		}
	}
	return s.Sorted()
}

// Dies returns the die ids of a package (online CPUs only).
func (t *Topo) Dies(p int) []int {
	s := IDSet{}
	for _, c := range t.CPUs {
		if c.Online && c.Pkg == p {
			s[c.Die] = struct{}{}
		}
	}
	return s.Sorted()
}

// DieNodes returns NUMA nodes with online CPUs of the given die.
func (t *Topo) DieNodes(p, d int) []int {
	s := IDSet{}
	for _, c := range t.CPUs {
		if c.Online && c.Pkg == p && c.Die == d {
			s[c.Node] = struct{}{}
		}
	}
	return s.Sorted()
}

// PkgNodes returns NUMA nodes with online CPUs of the given package.
func (t *Topo) PkgNodes(p int) []int {
	s := IDSet{}
	for _, c := range t.CPUs {
		if c.Online && c.Pkg == p {
			s[c.Node] = struct{}{}
		}
	}
	return s.Sorted()
}

// CPUNodes returns the nodes that have online CPUs.
func (t *Topo) CPUNodes() IDSet {
	s := IDSet{}
	for _, c := range t.CPUs {
		if c.Online {
			s[c.Node] = struct{}{}
		}
	}
	return s
}

// MemNodes returns the nodes that have memory.
func (t *Topo) MemNodes() IDSet {
	s := IDSet{}
	for _, n := range t.Nodes {
		if n.MemKB > 0 {
			s[n.ID] = struct{}{}
		}
	}
	return s
}

// NormalMemNodes returns nodes that have normal (non-movable) memory.
func (t *Topo) NormalMemNodes() IDSet {
	s := IDSet{}
	for _, n := range t.Nodes {
		if n.MemKB > 0 && !n.Movable {
			s[n.ID] = struct{}{}
		}
	}
	return s
}

// NodeKind predicts the memory type discovery is documented to infer:
// a node with CPUs is DRAM; a CPU-less node with memory is HBM when smaller
// than the average DRAM node (nodes without memory not counted), else PMEM.
func (t *Topo) NodeKind(n int) string {
	if t.CPUNodes().Has(n) {
		return "DRAM"
	}
	var total, cnt uint64
	for id := range t.CPUNodes() {
		if t.Nodes[id].MemKB > 0 {
			total += t.Nodes[id].MemKB * 1024
			cnt++
		}
	}
	if cnt == 0 {
		return "?"
	}
	if t.Nodes[n].MemKB*1024 < total/cnt {
		return "HBM"
	}
	return "PMEM"
}

// ClosestCPUNodes returns the CPU-bearing nodes at minimal distance from node n.
func (t *Topo) ClosestCPUNodes(n int) IDSet {
	best := -1
	out := IDSet{}
	for id := range t.CPUNodes() {
		if id == n {
			continue
		}
		d := t.Dist[n][id]
		if best < 0 || d < best {
			best = d
			out = IDSet{id: {}}
		} else if d == best {
			out[id] = struct{}{}
		}
	}
	return out
}

// NodeCapacityBytes returns the memory size of a node in bytes.
func (t *Topo) NodeCapacityBytes(n int) int64 { return int64(t.Nodes[n].MemKB) * 1024 }

// Key identifies the model (for memoising fixture trees).
func (t *Topo) Key() string { return Hash(t) }

// Features lists the irregularities of the machine (used for non-triviality rules).
func (t *Topo) Features() []string {
	var f []string
	multiDie, snc := false, false
	for _, p := range t.Packages() {
		if len(t.Dies(p)) > 1 {
			multiDie = true
		}
		for _, d := range t.Dies(p) {
			if len(t.DieNodes(p, d)) > 1 {
				snc = true
			}
		}
	}
	if len(t.Packages()) > 1 {
		f = append(f, "multi-socket")
	}
	if multiDie {
		f = append(f, "multi-die")
	}
	if snc {
		f = append(f, "snc")
	}
	cpuNodes := t.CPUNodes()
	special, memless, movable := false, false, false
	for _, n := range t.Nodes {
		if !cpuNodes.Has(n.ID) && n.MemKB > 0 {
			special = true
		}
		if cpuNodes.Has(n.ID) && n.MemKB == 0 {
			memless = true
		}
		if n.Movable {
			movable = true
		}
	}
	if special {
		f = append(f, "cpuless-node")
	}
	if memless {
		f = append(f, "memoryless-cpu-node")
	}
	if movable {
		f = append(f, "movable-only-node")
	}
	if t.OfflineCPUs().Size() > 0 {
		f = append(f, "offline-cpus")
	}
	if t.IsolatedCPUs().Size() > 0 {
		f = append(f, "isolated-cpus")
	}
	if t.Hybrid {
		f = append(f, "hybrid")
	}
	return f
}

// ---------------------------------------------------------------------------
// sysfs writer
// ---------------------------------------------------------------------------

var (
	fixMu    sync.Mutex
	fixtures = map[string]string{}
)

// Fixture writes the model as a sysfs tree (once per distinct model and
// process) and returns the root directory R such that R/sys is the tree.
func (t *Topo) Fixture() (string, error) {
	key := t.Key()
	fixMu.Lock()
	defer fixMu.Unlock()
	fixClock++
	if d, ok := fixtures[key]; ok {
		fixUsed[key] = fixClock
		return d, nil
	}
	base := os.Getenv("VERIF_SCRATCH")
	if base == "" {
		base = os.TempDir()
	}
	// (per process: fuzz workers and helper processes share the scratch directory)
	root := filepath.Join(base, fmt.Sprintf("fx-%d-%s", os.Getpid(), key))
	if err := t.Write(root); err != nil {
		return "", err
	}
	fixtures[key] = root
	fixUsed[key] = fixClock
	// long campaigns: keep the most recently used trees only (cases run one
	// after the other, the tree of the running case is the most recent one)
	for len(fixtures) > fixKeep {
		oldest, at := "", fixClock+1
		for k, u := range fixUsed {
			if u < at {
				oldest, at = k, u
			}
		}
		_ = os.RemoveAll(fixtures[oldest])
		delete(fixtures, oldest)
		delete(fixUsed, oldest)
	}
	return root, nil
}

const fixKeep = 24

var (
	fixUsed  = map[string]int64{}
	fixClock int64
)

func writeFile(path, content string) error {
	if err := os.MkdirAll(filepath.Dir(path), 0o755); err != nil {
		return err
	}
	return os.WriteFile(path, []byte(content+"\n"), 0o644)
}

// Write emits exactly the files hardware discovery reads, below root/sys.
func (t *Topo) Write(root string) error {
	sys := filepath.Join(root, "sys")
	cpuDir := filepath.Join(sys, "devices/system/cpu")
	nodeDir := filepath.Join(sys, "devices/system/node")
	w := func(p, c string) error { return writeFile(p, c) }

	all := t.AllCPUs()
	if err := w(filepath.Join(cpuDir, "possible"), all.String()); err != nil {
		return err
	}
	_ = w(filepath.Join(cpuDir, "present"), all.String())
	_ = w(filepath.Join(cpuDir, "online"), t.OnlineCPUs().String())
	_ = w(filepath.Join(cpuDir, "offline"), t.OfflineCPUs().String())
	_ = w(filepath.Join(cpuDir, "isolated"), t.IsolatedCPUs().String())
	if t.Hybrid {
		p := t.filter(func(c TCPU) bool { return !c.ECore && c.Online })
		_ = w(filepath.Join(sys, "devices/cpu_core/cpus"), p.String())
		_ = w(filepath.Join(sys, "devices/cpu_atom/cpus"), t.ECores().String())
	}
	for _, c := range t.CPUs {
		d := filepath.Join(cpuDir, fmt.Sprintf("cpu%d", c.ID))
		if err := os.MkdirAll(filepath.Join(d, fmt.Sprintf("node%d", c.Node)), 0o755); err != nil {
			return err
		}
		if c.Online {
			_ = w(filepath.Join(d, "online"), "1")
			_ = w(filepath.Join(d, "topology/physical_package_id"), fmt.Sprint(c.Pkg))
			_ = w(filepath.Join(d, "topology/die_id"), fmt.Sprint(c.Die))
			_ = w(filepath.Join(d, "topology/cluster_id"), fmt.Sprint(c.Cluster))
			_ = w(filepath.Join(d, "topology/core_id"), fmt.Sprint(c.Core))
			thr := t.ThreadsOf(c.ID).String()
			_ = w(filepath.Join(d, "topology/core_cpus_list"), thr)
			_ = w(filepath.Join(d, "topology/thread_siblings_list"), thr)
			// caches: index0 L1d, index1 L1i, index2 L2, index3 L3
			type cch struct {
				level int
				kind  string
				id    int
				size  string
				cpus  IDSet
			}
			coreGlobal := c.Pkg*1000 + c.Core
			caches := []cch{
				{1, "Data", coreGlobal, "32K", t.ThreadsOf(c.ID)},
				{1, "Instruction", coreGlobal, "32K", t.ThreadsOf(c.ID)},
				{2, "Unified", c.L2, "2048K", t.L2CPUs(c.ID)},
				{3, "Unified", c.L3, "32768K", t.L3CPUs(c.ID)},
			}
			for i, cc := range caches {
				cd := filepath.Join(d, fmt.Sprintf("cache/index%d", i))
				_ = w(filepath.Join(cd, "id"), fmt.Sprint(cc.id))
				_ = w(filepath.Join(cd, "level"), fmt.Sprint(cc.level))
				_ = w(filepath.Join(cd, "type"), cc.kind)
				_ = w(filepath.Join(cd, "size"), cc.size)
				_ = w(filepath.Join(cd, "shared_cpu_list"), cc.cpus.String())
			}
		} else {
			_ = w(filepath.Join(d, "online"), "0")
		}
		if c.BaseFreq > 0 {
			_ = w(filepath.Join(d, "cpufreq/base_frequency"), fmt.Sprint(c.BaseFreq))
			_ = w(filepath.Join(d, "cpufreq/cpuinfo_min_freq"), "800000")
			_ = w(filepath.Join(d, "cpufreq/cpuinfo_max_freq"), "3600000")
		}
		if c.EPP != "" {
			_ = w(filepath.Join(d, "cpufreq/energy_performance_preference"), c.EPP)
		}
	}
	ids := IDSet{}
	for _, n := range t.Nodes {
		ids[n.ID] = struct{}{}
	}
	_ = w(filepath.Join(nodeDir, "possible"), ids.String())
	_ = w(filepath.Join(nodeDir, "online"), ids.String())
	_ = w(filepath.Join(nodeDir, "has_cpu"), t.CPUNodes().String())
	_ = w(filepath.Join(nodeDir, "has_memory"), t.MemNodes().String())
	if err := w(filepath.Join(nodeDir, "has_normal_memory"), t.NormalMemNodes().String()); err != nil {
		return err
	}
	for _, n := range t.Nodes {
		d := filepath.Join(nodeDir, fmt.Sprintf("node%d", n.ID))
		_ = w(filepath.Join(d, "cpulist"), t.NodeCPUs(n.ID).String())
		dist := make([]string, len(t.Nodes))
		for j := range t.Nodes {
			dist[j] = fmt.Sprint(t.Dist[n.ID][j])
		}
		_ = w(filepath.Join(d, "distance"), strings.Join(dist, " "))
		mi := fmt.Sprintf("Node %d MemTotal:       %d kB\nNode %d MemFree:        %d kB\nNode %d MemUsed:        %d kB",
			n.ID, n.MemKB, n.ID, n.FreeKB, n.ID, n.MemKB-n.FreeKB)
		if err := w(filepath.Join(d, "meminfo"), mi); err != nil {
			return err
		}
	}
	return nil
}

// Summary is a compact description for evidence samples.
func (t *Topo) Summary() map[string]any {
	nodes := []string{}
	for _, n := range t.Nodes {
		nodes = append(nodes, fmt.Sprintf("%d:%s:%dMiB:cpus=%s", n.ID, t.NodeKind(n.ID), n.MemKB/1024, t.NodeCPUs(n.ID)))
	}
	sort.Strings(nodes)
	return map[string]any{
		"shape": t.Shape, "online": t.OnlineCPUs().String(), "isolated": t.IsolatedCPUs().String(),
		"nodes": nodes, "features": t.Features(),
	}
}

// TopoPool returns n hardware models derived deterministically from the
// effective seed of this process. Checks whose cost is dominated by writing
// fixture trees draw an index into such a pool instead of a fresh machine per
// case (the replay file still carries the full model).
func TopoPool(n int, o TopoOpts) []*Topo {
	seed := EnvInt("VERIF_SEED_EFFECTIVE", 1)
	g := rapid.Custom(func(t *rapid.T) *Topo { return GenTopo(t, o) })
	out := make([]*Topo, 0, n)
	for i := 0; i < n; i++ {
		out = append(out, g.Example(seed*100003+i))
	}
	return out
}

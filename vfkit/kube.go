package vfkit

// Reference formulas written from the kubelet sources/documentation
// (pkg/kubelet/cm/helpers_linux.go), independent of /repo/pkg/kubernetes.

const (
	RefMinShares    = 2
	RefMaxShares    = 262144
	RefSharesPerCPU = 1024
	RefQuotaPeriod  = 100000
	RefMinQuota     = 1000
)

// RefMilliCPUToShares is the kubelet's MilliCPUToShares.
func RefMilliCPUToShares(milli int64) int64 {
	if milli == 0 {
		return RefMinShares
	}
	s := milli * RefSharesPerCPU / 1000
	if s < RefMinShares {
		return RefMinShares
	}
	if s > RefMaxShares {
		return RefMaxShares
	}
	return s
}

// RefMilliCPUToQuota is the kubelet's MilliCPUToQuota with the default period.
func RefMilliCPUToQuota(milli int64) (quota, period int64) {
	if milli == 0 {
		return 0, 0
	}
	period = RefQuotaPeriod
	quota = milli * period / 1000
	if quota < RefMinQuota {
		quota = RefMinQuota
	}
	return quota, period
}

// RefBurstableOomAdj is the kubelet's OOM score adjustment for a Burstable
// container with the given memory request on a node with the given capacity.
func RefBurstableOomAdj(memRequest, capacity int64) int64 {
	adj := 1000 - (1000*memRequest)/capacity
	if adj < 1000+(-997) {
		return 1000 + (-997)
	}
	if adj == 1000 {
		return 999
	}
	return adj
}

package vfkit

import (
	"os"
	"path/filepath"
	"regexp"
	"sort"
	"strings"
)

// Reading back the reports of the Go race detector (GORACE=log_path=...).

var raceLogOffset = map[string]int64{}

func raceLogPath() string {
	for _, f := range strings.Fields(os.Getenv("GORACE")) {
		if v, ok := strings.CutPrefix(f, "log_path="); ok {
			return v
		}
	}
	return ""
}

// NewRaceReports returns the race detector reports written since the last call.
func NewRaceReports() []string {
	prefix := raceLogPath()
	if prefix == "" {
		return nil
	}
	files, _ := filepath.Glob(prefix + ".*")
	out := []string{}
	for _, f := range files {
		data, err := os.ReadFile(f)
		if err != nil {
			continue
		}
		off := raceLogOffset[f]
		if int64(len(data)) <= off {
			continue
		}
		raceLogOffset[f] = int64(len(data))
		for _, blk := range strings.Split(string(data[off:]), "==================") {
			if strings.Contains(blk, "DATA RACE") {
				out = append(out, blk)
			}
		}
	}
	return out
}

var (
	raceAccessRe   = regexp.MustCompile(`(?m)^(Write|Read|Previous write|Previous read|Atomic write|Atomic read|Previous atomic write|Previous atomic read) at 0x[0-9a-f]+ by (main goroutine|goroutine \d+):$`)
	raceHandlerRe  = regexp.MustCompile(`\(\*nriPlugin\)\.(Synchronize|RunPodSandbox|StopPodSandbox|RemovePodSandbox|CreateContainer|StartContainer|UpdateContainer|StopContainer|RemoveContainer)\(|\(\*resmgr\)\.(updateConfig|reconfigure)\(`)
	raceActivityRe = regexp.MustCompile(`(goFetchPodResources)\.func|\(\*pod\)\.(GetPodResources)\(`)
)

// RaceSignature names the two request handlers (or background activities)
// whose unsynchronised accesses the detector reported.
func RaceSignature(report string) (sig string, harnessOnly bool) {
	idx := raceAccessRe.FindAllStringIndex(report, -1)
	parties, sites := []string{}, []string{}
	harnessOnly = len(idx) > 0
	for i, at := range idx {
		end := len(report)
		if i+1 < len(idx) {
			end = idx[i+1][0]
		}
		stack := report[at[1]:end]
		if j := strings.Index(stack, "\nGoroutine "); j >= 0 {
			stack = stack[:j]
		}
		party := ""
		mm := raceHandlerRe.FindStringSubmatch(stack)
		if mm == nil {
			mm = raceActivityRe.FindStringSubmatch(stack)
		}
		if mm != nil {
			for _, g := range mm[1:] {
				if g != "" {
					party = g
				}
			}
		}
		site := ""
		lines := strings.Split(strings.TrimSpace(stack), "\n")
		for k := 0; k+1 < len(lines); k += 2 {
			fn, file := strings.TrimSpace(lines[k]), strings.TrimSpace(lines[k+1])
			if strings.Contains(fn, "containers/nri-plugins") && !strings.Contains(file, "zz_verif_") {
				site = fn[strings.LastIndex(fn, "/")+1:]
				if j := strings.Index(site, "("); j > 0 && !strings.HasPrefix(site[j:], "(*") {
					site = site[:j]
				}
				site = strings.TrimSuffix(site, "()")
				harnessOnly = false
				break
			}
		}
		if party == "" {
			party = site
		}
		if party == "" {
			party = "?"
		}
		parties = append(parties, party)
		sites = append(sites, site)
	}
	sort.Strings(parties)
	return "data-race:" + strings.Join(parties, "~"), harnessOnly
}

// Package vfkit holds the helper code shared by all verification harness
// files: statistics/evidence plumbing, violation + known-finding handling,
// replay files, an independent cpuset parser, a hardware-topology model with
// a sysfs writer, and reference kubelet formulas.
//
// It is delivered into the repository build through `go build -overlay`; it
// never exists on disk inside /repo.
package vfkit

import (
	"crypto/sha256"
	"encoding/hex"
	"encoding/json"
	"fmt"
	"os"
	"path/filepath"
	"sort"
	"strconv"
	"strings"
	"sync"
)

// Violation is a structured report of a generated case contradicting an oracle.
type Violation struct {
	Property  string `json:"property"`
	Clause    string `json:"clause"`
	Signature string `json:"signature"` // structural, stable across shrinking
	Detail    string `json:"detail"`
	Replay    string `json:"replay,omitempty"`
}

func (v *Violation) Error() string {
	return fmt.Sprintf("VIOLATION %s [%s] %s", v.Property, v.Clause, v.Signature)
}

// KnownFinding is one entry of known-findings.json.
type KnownFinding struct {
	Property  string `json:"property"`
	Signature string `json:"signature"`
	Status    string `json:"status"` // "known" or "fixed"
	WhatFails string `json:"what_fails"`
	Commit    string `json:"commit,omitempty"`
}

// Stats collects what one test process explored for one property.
type Stats struct {
	mu          sync.Mutex
	Property    string                `json:"property"`
	Evaluations int                   `json:"evaluations"`
	Labels      map[string]int        `json:"labels"`
	Nontrivial  map[string]struct{}   `json:"-"`
	NontrivKeys []string              `json:"nontrivial_keys"`
	Samples     []any                 `json:"samples"`
	KnownHits   map[string]int        `json:"known_hits"`
	Excluded    int                   `json:"excluded_by_known_finding"`
	SelfCheck   int                   `json:"self_check_failures"`
	Violations  map[string]*Violation `json:"violations"`
	Exhaustive  bool                  `json:"exhaustive"`
	Extra       map[string]int        `json:"extra"`
	Notes       []string              `json:"notes"`
	Units       map[string]int        `json:"units"`
	maxSamples  int
}

var (
	regMu    sync.Mutex
	registry = map[string]*Stats{}
	known    []KnownFinding
	knownOK  bool
)

// For returns the (process-wide) statistics object of a property.
func For(property string) *Stats {
	regMu.Lock()
	defer regMu.Unlock()
	if s, ok := registry[property]; ok {
		return s
	}
	s := &Stats{
		Property:   property,
		Labels:     map[string]int{},
		Nontrivial: map[string]struct{}{},
		KnownHits:  map[string]int{},
		Violations: map[string]*Violation{},
		Extra:      map[string]int{},
		Units:      map[string]int{},
		maxSamples: 5,
	}
	registry[property] = s
	return s
}

// Hash returns a short stable hash of any JSON-serialisable value.
func Hash(v any) string {
	b, err := json.Marshal(v)
	if err != nil {
		b = []byte(fmt.Sprintf("%#v", v))
	}
	h := sha256.Sum256(b)
	return hex.EncodeToString(h[:8])
}

// Case records one evaluated case. key identifies the case (distinctness);
// nontrivial says whether it satisfies the property's non-triviality rule.
func (s *Stats) Case(unit string, nontrivial bool, key string, labels ...string) {
	s.mu.Lock()
	defer s.mu.Unlock()
	s.Evaluations++
	s.Units[unit]++
	if nontrivial {
		s.Nontrivial[key] = struct{}{}
	}
	for _, l := range labels {
		s.Labels[l]++
	}
}

// Count adds n evaluations at once (exhaustive loops), n2 of them non-trivial
// and distinct by construction, identified by keyPrefix.
func (s *Stats) Count(unit string, n int, nontrivialDistinct int, keyPrefix string) {
	s.mu.Lock()
	defer s.mu.Unlock()
	s.Evaluations += n
	s.Units[unit] += n
	s.Extra["bulk_nontrivial:"+keyPrefix] += nontrivialDistinct
}

// Label bumps label counters without counting a case.
func (s *Stats) Label(labels ...string) {
	s.mu.Lock()
	defer s.mu.Unlock()
	for _, l := range labels {
		s.Labels[l]++
	}
}

// AddExtra bumps a free-form counter.
func (s *Stats) AddExtra(k string, n int) {
	s.mu.Lock()
	defer s.mu.Unlock()
	s.Extra[k] += n
}

// Sample keeps up to maxSamples concrete cases for the evidence file.
func (s *Stats) Sample(v any) {
	s.mu.Lock()
	defer s.mu.Unlock()
	if len(s.Samples) < s.maxSamples {
		s.Samples = append(s.Samples, v)
	}
}

// WantSample tells whether another sample would be kept.
func (s *Stats) WantSample() bool {
	s.mu.Lock()
	defer s.mu.Unlock()
	return len(s.Samples) < s.maxSamples
}

func (s *Stats) Note(n string) {
	s.mu.Lock()
	defer s.mu.Unlock()
	for _, o := range s.Notes {
		if o == n {
			return
		}
	}
	s.Notes = append(s.Notes, n)
}

func (s *Stats) SetExhaustive(b bool) { s.mu.Lock(); s.Exhaustive = b; s.mu.Unlock() }
func (s *Stats) SelfCheckFailed()     { s.mu.Lock(); s.SelfCheck++; s.mu.Unlock() }
func (s *Stats) ExcludedByKnown()     { s.mu.Lock(); s.Excluded++; s.mu.Unlock() }

func loadKnown() {
	if knownOK {
		return
	}
	knownOK = true
	p := os.Getenv("VERIF_KNOWN")
	if p == "" {
		return
	}
	b, err := os.ReadFile(p)
	if err != nil {
		return
	}
	var all []KnownFinding
	if json.Unmarshal(b, &all) != nil {
		return
	}
	for _, k := range all {
		if k.Status == "known" {
			known = append(known, k)
		}
	}
}

// IsKnown tells whether a violation's signature is listed as a known finding.
func IsKnown(v *Violation) bool {
	regMu.Lock()
	loadKnown()
	regMu.Unlock()
	for _, k := range known {
		if k.Property == v.Property && k.Signature == v.Signature {
			return true
		}
	}
	return false
}

// KnownHit counts a hit of a listed known finding without abandoning the case.
func (s *Stats) KnownHit(v *Violation) {
	if want := os.Getenv("VERIF_PROPERTY"); want != "" && v.Property != want {
		return
	}
	s.mu.Lock()
	s.KnownHits[v.Signature]++
	s.mu.Unlock()
}

// KnownListed tells whether a signature is listed for a property (used by
// generators that steer away from a known trigger).
func KnownListed(property, signature string) bool {
	return IsKnown(&Violation{Property: property, Signature: signature})
}

// Fataler is satisfied by *testing.T and *rapid.T.
type Fataler interface {
	Fatalf(format string, args ...any)
}

// Report handles a violation found while executing `caseObj` in test `unit`.
// It returns true if the violation is a listed known finding (the caller then
// abandons the case and returns normally). Otherwise it writes the replay
// file, records the violation and fails the test through t (does not return).
func (s *Stats) Report(t Fataler, unit string, v *Violation, caseObj any) bool {
	if v.Property == "" {
		v.Property = s.Property
	}
	if IsKnown(v) {
		s.mu.Lock()
		s.KnownHits[v.Signature]++
		s.mu.Unlock()
		return true
	}
	// a shared executor may notice a violation of another property than the
	// one this invocation decides: count it, abandon the case, keep searching
	if want := os.Getenv("VERIF_PROPERTY"); want != "" && v.Property != want {
		f := For(want)
		f.mu.Lock()
		f.Extra["foreign_violation:"+v.Property+":"+v.Signature]++
		f.mu.Unlock()
		return true
	}
	v.Replay = WriteReplay(s.Property, unit, v, caseObj)
	s.mu.Lock()
	s.Violations[unit] = v // the last failing execution (the shrunk one) wins
	s.mu.Unlock()
	Flush()
	if t != nil {
		t.Fatalf("%s", v.Error())
	}
	return false
}

// ReplayFile is what a replay file contains.
type ReplayFile struct {
	Property  string          `json:"property"`
	Unit      string          `json:"unit"`
	Violation *Violation      `json:"violation"`
	Case      json.RawMessage `json:"case"`
}

// WriteReplay writes a replay file and returns its path.
func WriteReplay(property, unit string, v *Violation, caseObj any) string {
	dir := os.Getenv("VERIF_REPLAY_DIR")
	if dir == "" {
		dir = filepath.Join(os.TempDir(), "verif-replays")
	}
	dir = filepath.Join(dir, property)
	_ = os.MkdirAll(dir, 0o755)
	seed := os.Getenv("VERIF_SEED_EFFECTIVE")
	if seed == "" {
		seed = "x"
	}
	cb, err := json.Marshal(caseObj)
	if err != nil {
		cb, _ = json.Marshal(fmt.Sprintf("%#v", caseObj))
	}
	rf := ReplayFile{Property: property, Unit: unit, Violation: v, Case: cb}
	b, _ := json.MarshalIndent(rf, "", " ")
	p := filepath.Join(dir, fmt.Sprintf("%s-seed%s.json", sanitize(unit), seed))
	tmp := p + ".tmp" + strconv.Itoa(os.Getpid())
	if os.WriteFile(tmp, b, 0o644) == nil {
		_ = os.Rename(tmp, p)
	}
	return p
}

func sanitize(s string) string {
	return strings.Map(func(r rune) rune {
		switch {
		case r >= 'a' && r <= 'z', r >= 'A' && r <= 'Z', r >= '0' && r <= '9', r == '-', r == '_':
			return r
		}
		return '_'
	}, s)
}

// LoadReplay reads the replay file named by VERIF_REPLAY_FILE; ok=false when
// the variable is unset (the replay test then skips).
func LoadReplay(into any) (rf *ReplayFile, ok bool, err error) {
	p := os.Getenv("VERIF_REPLAY_FILE")
	if p == "" {
		return nil, false, nil
	}
	b, err := os.ReadFile(p)
	if err != nil {
		return nil, true, err
	}
	rf = &ReplayFile{}
	if err = json.Unmarshal(b, rf); err != nil {
		return nil, true, err
	}
	if into != nil {
		if err = json.Unmarshal(rf.Case, into); err != nil {
			return rf, true, err
		}
	}
	return rf, true, nil
}

// Flush writes all statistics to $VERIF_STATS (atomically). Safe to call often.
func Flush() {
	p := os.Getenv("VERIF_STATS")
	if p == "" {
		return
	}
	regMu.Lock()
	defer regMu.Unlock()
	out := map[string]*Stats{}
	for k, s := range registry {
		s.mu.Lock()
		s.NontrivKeys = s.NontrivKeys[:0]
		for h := range s.Nontrivial {
			s.NontrivKeys = append(s.NontrivKeys, h)
		}
		sort.Strings(s.NontrivKeys)
		out[k] = s
	}
	b, err := json.Marshal(out)
	for _, s := range registry {
		s.mu.Unlock()
	}
	if err != nil {
		fmt.Fprintf(os.Stderr, "vfkit: cannot marshal stats: %v\n", err)
		return
	}
	tmp := p + ".tmp"
	if err := os.WriteFile(tmp, b, 0o644); err == nil {
		_ = os.Rename(tmp, p)
	}
}

// Tier returns "quick" or "thorough".
func Tier() string {
	if os.Getenv("VERIF_TIER") == "thorough" {
		return "thorough"
	}
	return "quick"
}

// EnvInt reads an integer environment variable with a default.
func EnvInt(name string, def int) int {
	if v := os.Getenv(name); v != "" {
		if n, err := strconv.Atoi(v); err == nil {
			return n
		}
	}
	return def
}

package vfkit

import (
	"path"
	"strings"
)

// Reference semantics of container match expressions, written from the
// documentation (docs/resource-policy/policy/topology-aware.md, "Affinity
// Semantics"): keys, joint keys and the operator table.

func refValidSep(b byte) bool {
	switch {
	case '0' <= b && b <= '9', 'a' <= b && b <= 'z', 'A' <= b && b <= 'Z', b == '/', b == '.':
		return false
	}
	return true
}

// RefKeyValue evaluates a (possibly joint) key with the given resolver of
// simple keys: joint keys evaluate to their sub-key values joined by the
// value separator, and exist if any sub-key exists.
func RefKeyValue(key string, resolve func(string) (string, bool)) (string, bool) {
	if len(key) < 4 || key[0] != ':' {
		return resolve(key)
	}
	ksep, vsep, rest := ":", ":", key[1:]
	if refValidSep(key[1]) && refValidSep(key[2]) {
		ksep, vsep, rest = key[1:2], key[2:3], key[3:]
	}
	vals, any := []string{}, false
	for _, k := range strings.Split(rest, ksep) {
		v, ok := resolve(k)
		vals = append(vals, v)
		any = any || ok
	}
	return strings.Join(vals, vsep), any
}

func refGlobAny(patterns []string, v string) bool {
	for _, p := range patterns {
		if m, err := path.Match(p, v); err == nil && m {
			return true
		}
	}
	return false
}

// RefOperator is the documented operator table. judged is false for inputs
// the documentation does not cover (the "*" wildcard value, unknown operators).
func RefOperator(op string, values []string, v string, ok bool) (result, judged bool) {
	in := false
	for _, x := range values {
		if x == "*" {
			return false, false
		}
		if ok && x == v {
			in = true
		}
	}
	switch op {
	case "AlwaysTrue":
		return true, true
	case "Equals":
		return ok && v == values[0], true
	case "NotEqual":
		return !(ok && v == values[0]), true
	case "In":
		return in, true
	case "NotIn":
		return !in, true
	case "Exists":
		return ok, true
	case "NotExist":
		return !ok, true
	case "Matches":
		return ok && refGlobAny(values[:1], v), true
	case "MatchesNot":
		return !(ok && refGlobAny(values[:1], v)), true
	case "MatchesAny":
		return ok && refGlobAny(values, v), true
	case "MatchesNone":
		return !(ok && refGlobAny(values, v)), true
	}
	return false, false
}

#!/usr/bin/env python3
"""Regenerates MANIFEST.json from checks_table.py (+ manifest_text.py for prose)."""
import json, os, sys
VERIF = os.path.dirname(os.path.abspath(__file__))
sys.path.insert(0, VERIF)
from checks_table import PROPS
from manifest_text import TEXT, NOT_APPLICABLE, NOTES

checks = []
for pid in sorted(PROPS):
    P = PROPS[pid]
    T = TEXT[pid]
    checks.append({
        "property_id": pid,
        "quick_cmd": "./check %s --tier quick" % pid,
        "thorough_cmd": "./check %s --tier thorough" % pid,
        "evidence_file": "/verif/evidence/%s.json" % pid,
        "replay_cmd_template": "./check %s --replay {path}" % pid,
        "engine": "pbt-overlay",
        "level_claimed": {"category": P["level"], "text": T["level_text"], "design_ref": T.get("design_ref", "DESIGN.md §3 " + pid)},
        "level_note": T["level_note"],
        "technique": P["technique"],
    })
m = {
    "version": 1,
    "setup_cmd": "./check --setup",
    "hooks": {
        "guard": "verif",
        "enable": "go test -c -tags verif,verifwb -modfile=/verif/.build/<h>/go.mod -overlay=/verif/.build/<h>/overlay.json (harness files live in /verif/overlay and /verif/vfkit and are compiled into /repo's packages through -overlay; nothing is added to /repo)",
        "baseline_off_cmd": "cd /repo && go test -mod=mod -vet=off -count=1 ./... ; cd /repo/pkg/topology && go test -mod=mod -vet=off -count=1 ./...",
        "source_commits": [],
        "add_only": True,
    },
    "engines": [{
        "name": "pbt-overlay", "path": "/verif/check",
        "serves_properties": sorted(PROPS),
        "kind_free_text": "python driver + Go property tests (pgregory.net/rapid v1.3.0 random/stateful generation with shrinking, exhaustive loops for small finite domains, native go fuzzing in the thorough tier) compiled into the repository's packages via go build -overlay",
    }],
    "checks": checks,
    "not_applicable": NOT_APPLICABLE,
    "notes": NOTES,
}
open(os.path.join(VERIF, "MANIFEST.json"), "w").write(json.dumps(m, indent=1) + "\n")
print("wrote MANIFEST.json with", len(checks), "checks")

#!/bin/bash
# usage: tools_mut.sh <ID> [--tier T] -- <file> <python-regex> <replacement> [<file> <regex> <repl> ...]
#    or: tools_mut.sh <ID> [--tier T] --patch <patch.diff>
# Applies a mutation to a scratch worktree of /repo, runs the check against it
# (VERIF_REPO), prints the exit code, removes the worktree.
set -u
ID=$1; shift
TIER=quick
if [ "${1:-}" = "--tier" ]; then TIER=$2; shift 2; fi
WT=$(mktemp -d /tmp/vmut-XXXXXX)
rmdir "$WT"
git -C /repo worktree add --detach "$WT" HEAD >/dev/null 2>&1 || { echo "worktree failed"; exit 3; }
cleanup() { git -C /repo worktree remove --force "$WT" >/dev/null 2>&1; rm -rf "$WT"; rm -rf /verif/.build/$(python3 -c "import hashlib;print(hashlib.sha1('$WT'.encode()).hexdigest()[:10])"); }
trap cleanup EXIT
# carry over uncommitted changes of /repo (fix candidates)
git -C /repo diff HEAD | (cd "$WT" && git apply --allow-empty 2>/dev/null)
if [ "$1" = "--patch" ]; then
  (cd "$WT" && git apply "$2") || { echo "patch failed"; exit 3; }
else
  shift
  while [ $# -ge 3 ]; do
    python3 - "$WT/$1" "$2" "$3" <<'PY' || exit 3
import re,sys
p,rx,rep=sys.argv[1:4]
s=open(p).read()
n,k=re.subn(rx,rep,s,count=1,flags=re.S)
if k!=1:
    print("MUTATION DID NOT APPLY:",rx); sys.exit(1)
open(p,'w').write(n)
PY
    shift 3
  done
fi
(cd "$WT" && git diff --stat | tail -1)
VERIF_REPO="$WT" /verif/check "$ID" --tier "$TIER" 2>&1 | grep -E "^(VIOLATION|OK|KNOWN|INCONCLUSIVE|  (clause|signature))" | grep -v "^KNOWN" | head -30
echo "exit=${PIPESTATUS[0]}"

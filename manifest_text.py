# Prose for MANIFEST.json, per property.
NOTES = "All checks: ./check <ID> [--tier quick|thorough]; VERIF_SEED selects the rapid seed (0 -> 1). See DESIGN.md."

TEXT = {
 "C20": {
  "level_text": "CPU part: complete enumeration of the stated domain (0..256000 mCPU, shares 2..262144, quota at four periods) against an independent re-implementation of the kubelet encoders, so for the CPU clauses the result is exact, not sampled. Memory part: rapid-generated capacities (thousands per run, seven shapes incl. primes and non-page-aligned values) checked by building the table under recover and round-tripping all 997 Burstable adjustments against the kubelet formula; absence of a failing capacity outside the sample is not established.",
  "level_note": "Trusted: vfkit/kube.go reference formulas (kubelet helpers_linux.go), Go integer/float semantics. Capacity domain sampled, not enumerated.",
 },
 "C06": {
  "level_text": "Thousands (quick) to ~10^6 (thorough) generated allocator histories on generated node sets, each operation checked against a reference model of what the statement promises: full observable state (every id's zone, the request list, usage/free of every node subset) unchanged by failed operations and by GetOffer; a twin allocator that never sees offers must agree on every later result (offers are pure, commit of a fresh offer == direct allocate); offers become stale after any successful mutation counted by the model. Sampling, not proof: absence outside the generated histories is not established.",
  "level_note": "Trusted: the reference model in overlay/libmem (mutation counting, twin construction), Go runtime. Public API only; hidden allocator state is observed only through its effect on later operations of the twin.",
 },
 "C07": {
  "level_text": "Same generated histories as C06, weighted towards overcommit; after every successful operation validity predicates from the statement are evaluated over all node subsets with generator-side capacities (fit), type masks (strict), normal-memory flags, previous assignments (superset moves, immovable reservations, realloc monotone) and the returned update map (both inclusions). One genuine defect is recorded as a known finding by structural signature; any other capacity violation still fails.",
  "level_note": "Trusted: generator-side capacities and types; predicates in overlay/libmem. Known finding: union-of-incomparable-zones overcommit (known-findings.json).",
 },
 "C08": {
  "level_text": "Generated (machine, candidate set, count, priority, flags) call sequences through the real sysfs discovery and CPU allocator; every call is checked against the stated contract on result and set bookkeeping, and determinism is checked three ways (repeat on the same allocator, a fresh allocator, an allocator over an independently discovered system). Sampling over a large structured space, not exhaustive.",
  "level_note": "Trusted: vfkit topology model and sysfs writer; own set arithmetic (vfkit.IDSet).",
 },
 "C16": {
  "level_text": "Round trip on generated irregular machines: the model is written as the sysfs files discovery reads, discovered by the real code and every accessor named in the statement is compared with the model (exact equality). Pool-tree part: structural predicates from the statement evaluated on the policy's pools after Setup against the model. Hundreds (quick) to tens of thousands (thorough) of distinct machines.",
  "level_note": "Trusted: vfkit topology model/writer (files emitted are exactly those discovery reads); memory type of CPU-less nodes predicted by the documented size rule. Sparse node ids and offline CPUs without node links are not generated.",
 },
}

_ALL = ["C%02d" % i for i in range(1, 21)]
NOT_APPLICABLE = [
 {"property_id": p, "reason": "check not built yet in this session (planned, see DESIGN.md section 3); not a statement that the technique cannot apply"}
 for p in _ALL if p not in TEXT
]

# Prose for MANIFEST.json, per property.
NOTES = "All checks: ./check <ID> [--tier quick|thorough]; VERIF_SEED selects the rapid seed (0 -> 1). See DESIGN.md."

TEXT = {
 "C20": {
  "level_text": "CPU part: complete enumeration of the stated domain (0..256000 mCPU, shares 2..262144, quota at four periods) against an independent re-implementation of the kubelet encoders, so for the CPU clauses the result is exact, not sampled. Memory part: rapid-generated capacities (thousands per run, seven shapes incl. primes and non-page-aligned values) checked by building the table under recover and round-tripping all 997 Burstable adjustments against the kubelet formula; absence of a failing capacity outside the sample is not established.",
  "level_note": "Trusted: vfkit/kube.go reference formulas (kubelet helpers_linux.go), Go integer/float semantics. Capacity domain sampled, not enumerated.",
 },
 "C06": {
  "level_text": "Thousands (quick) to ~10^6 (thorough) generated allocator histories on generated node sets, each operation checked against a reference model of what the statement promises: full observable state (every id's zone, the request list, usage/free of every node subset) unchanged by failed operations and by GetOffer; a twin allocator that never sees offers must agree on every later result (offers are pure, commit of a fresh offer == direct allocate); offers become stale after any successful mutation counted by the model. Sampling, not proof: absence outside the generated histories is not established.",
  "level_note": "Trusted: the reference model in overlay/libmem (mutation counting, twin construction), Go runtime. Public API only; hidden allocator state is observed only through its effect on later operations of the twin.",
 },
 "C07": {
  "level_text": "Same generated histories as C06, weighted towards overcommit; after every successful operation validity predicates from the statement are evaluated over all node subsets with generator-side capacities (fit), type masks (strict), normal-memory flags, previous assignments (superset moves, immovable reservations, realloc monotone) and the returned update map (both inclusions). One genuine defect is recorded as a known finding by structural signature; any other capacity violation still fails.",
  "level_note": "Trusted: generator-side capacities and types; predicates in overlay/libmem. Known finding: union-of-incomparable-zones overcommit (known-findings.json).",
 },
 "C08": {
  "level_text": "Generated (machine, candidate set, count, priority, flags) call sequences through the real sysfs discovery and CPU allocator; every call is checked against the stated contract on result and set bookkeeping, and determinism is checked three ways (repeat on the same allocator, a fresh allocator, an allocator over an independently discovered system). Sampling over a large structured space, not exhaustive.",
  "level_note": "Trusted: vfkit topology model and sysfs writer; own set arithmetic (vfkit.IDSet).",
 },
 "C16": {
  "level_text": "Round trip on generated irregular machines: the model is written as the sysfs files discovery reads, discovered by the real code and every accessor named in the statement is compared with the model (exact equality). Pool-tree part: structural predicates from the statement evaluated on the policy's pools after Setup against the model. Hundreds (quick) to tens of thousands (thorough) of distinct machines.",
  "level_note": "Trusted: vfkit topology model/writer (files emitted are exactly those discovery reads); memory type of CPU-less nodes predicted by the documented size rule. Sparse node ids and offline CPUs without node links are not generated.",
 },
}

_HIST_NOTE = ("Trusted: vfkit hardware model + sysfs writer, the runtime reference model and generators in overlay/resmgr, read-only white-box snapshot hooks "
              "(build tags verif,verifwb, compiled in through go build -overlay). Bounded machines (<= 32-64 CPUs, <= 8-10 memory nodes) and histories (<= 45 requests); "
              "absence beyond the generated cases is not established. Known findings listed in known-findings.json are reported as KNOWN-FINDING lines and excluded by structural signature.")
def _hist_text(what):
    return ("Hundreds (quick) to tens of thousands (thorough) of generated request histories executed against a real in-process resource manager "
            "(real policy backend, real cache, real sysfs discovery on a generated fixture); after every request " + what +
            ". Failures are shrunk by rapid and by an operation-removal pass, and the concrete case is written as a replay file that is re-executed without rapid.")
for _p, _w in {
 "C01": "the exclusive CPU sets of all live containers (white-box grants) are compared pairwise, against every other container's told cpuset (runtime model), every pool's shared set (white-box and advertised zones), the configured available set and the reserved set with the documented reserved-class rule",
 "C02": "balloon cpusets, membership, told cpusets, shared idle CPUs (scope computed from the hardware model), per-type limits, request coverage and CPU class assignments are checked against the configuration and the model",
 "C03": "per-pool capacity ledgers (sum of grant portions vs. shared/reserved CPUs left in the subtree), non-empty pinning, a reference implementation of the documented eligibility table and the kubelet shares formula are evaluated for every live container",
 "C04": "each container's told cpuset.mems is compared with the policy allocator's AssignedZone, checked for existence/memory against the model, and every subset of memory nodes is checked for capacity",
 "C05": "the runtime reference model (creation values overlaid by every adjustment, update and push) is compared field by field with the cache, pending marks are inspected, and each reply is checked for duplicate or dead targets",
 "C09": "no grant, balloon membership or memory request may belong to a non-live container, and after a generated drain the policy state is compared with a pristine instance of the final configuration",
 "C12": "every adjustment, update and push addressed to an opted-out container is inspected before it is applied to the runtime model",
}.items():
    TEXT[_p] = {"level_text": _hist_text(_w), "level_note": _HIST_NOTE}

_ALL = ["C%02d" % i for i in range(1, 21)]
NOT_APPLICABLE = [
 {"property_id": p, "reason": "check not built yet in this session (planned, see DESIGN.md section 3); not a statement that the technique cannot apply"}
 for p in _ALL if p not in TEXT
]

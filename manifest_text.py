# Prose for MANIFEST.json, per property.
NOTES = "All checks: ./check <ID> [--tier quick|thorough]; VERIF_SEED selects the rapid seed (0 -> 1). See DESIGN.md."

TEXT = {
 "C20": {
  "level_text": "CPU part: complete enumeration of the stated domain (0..256000 mCPU, shares 2..262144, quota at four periods) against an independent re-implementation of the kubelet encoders, so for the CPU clauses the result is exact, not sampled. Memory part: rapid-generated capacities (thousands per run, seven shapes incl. primes and non-page-aligned values) checked by building the table under recover and round-tripping all 997 Burstable adjustments against the kubelet formula; absence of a failing capacity outside the sample is not established.",
  "level_note": "Trusted: vfkit/kube.go reference formulas (kubelet helpers_linux.go), Go integer/float semantics. Capacity domain sampled, not enumerated.",
 },
 "C06": {
  "level_text": "Thousands (quick) to ~10^6 (thorough) generated allocator histories on generated node sets, each operation checked against a reference model of what the statement promises: full observable state (every id's zone, the request list, usage/free of every node subset) unchanged by failed operations and by GetOffer; a twin allocator that never sees offers must agree on every later result (offers are pure, commit of a fresh offer == direct allocate); offers become stale after any successful mutation counted by the model. Sampling, not proof: absence outside the generated histories is not established.",
  "level_note": "Trusted: the reference model in overlay/libmem (mutation counting, twin construction), Go runtime. Public API only; hidden allocator state is observed only through its effect on later operations of the twin.",
 },
 "C07": {
  "level_text": "Same generated histories as C06, weighted towards overcommit; after every successful operation validity predicates from the statement are evaluated over all node subsets with generator-side capacities (fit), type masks (strict), normal-memory flags, previous assignments (superset moves, immovable reservations, realloc monotone) and the returned update map (both inclusions). One genuine defect is recorded as a known finding by structural signature; any other capacity violation still fails.",
  "level_note": "Trusted: generator-side capacities and types; predicates in overlay/libmem. Known finding: union-of-incomparable-zones overcommit (known-findings.json).",
 },
 "C08": {
  "level_text": "Generated (machine, candidate set, count, priority, flags) call sequences through the real sysfs discovery and CPU allocator; every call is checked against the stated contract on result and set bookkeeping, and determinism is checked three ways (repeat on the same allocator, a fresh allocator, an allocator over an independently discovered system). Sampling over a large structured space, not exhaustive.",
  "level_note": "Trusted: vfkit topology model and sysfs writer; own set arithmetic (vfkit.IDSet).",
 },
 "C16": {
  "level_text": "Round trip on generated irregular machines: the model is written as the sysfs files discovery reads, discovered by the real code and every accessor named in the statement is compared with the model (exact equality). Pool-tree part: structural predicates from the statement evaluated on the policy's pools after Setup against the model. Hundreds (quick) to tens of thousands (thorough) of distinct machines.",
  "level_note": "Trusted: vfkit topology model/writer (files emitted are exactly those discovery reads); memory type of CPU-less nodes predicted by the documented size rule. Sparse node ids and offline CPUs without node links are not generated.",
 },
}

_HIST_NOTE = ("Trusted: vfkit hardware model + sysfs writer, the runtime reference model and generators in overlay/resmgr, read-only white-box snapshot hooks "
              "(build tags verif,verifwb, compiled in through go build -overlay). Bounded machines (<= 32-64 CPUs, <= 8-10 memory nodes) and histories (<= 45 requests); "
              "absence beyond the generated cases is not established. Known findings listed in known-findings.json are reported as KNOWN-FINDING lines and excluded by structural signature.")
def _hist_text(what):
    return ("Hundreds (quick) to tens of thousands (thorough) of generated request histories executed against a real in-process resource manager "
            "(real policy backend, real cache, real sysfs discovery on a generated fixture); after every request " + what +
            ". Failures are shrunk by rapid and by an operation-removal pass, and the concrete case is written as a replay file that is re-executed without rapid.")
for _p, _w in {
 "C01": "the exclusive CPU sets of all live containers (white-box grants) are compared pairwise, against every other container's told cpuset (runtime model), every pool's shared set (white-box and advertised zones), the configured available set and the reserved set with the documented reserved-class rule",
 "C02": "balloon cpusets, membership, told cpusets, shared idle CPUs (scope computed from the hardware model), per-type limits, request coverage and CPU class assignments are checked against the configuration and the model",
 "C03": "per-pool capacity ledgers (sum of grant portions vs. shared/reserved CPUs left in the subtree), non-empty pinning, a reference implementation of the documented eligibility table and the kubelet shares formula are evaluated for every live container",
 "C04": "each container's told cpuset.mems is compared with the policy allocator's AssignedZone, checked for existence/memory against the model (also for containers whose allocation failed and that were told a fallback set), and every subset of memory nodes is checked for capacity",
 "C05": "the runtime reference model (creation values overlaid by every adjustment, update and push) is compared field by field with the cache, pending marks are inspected, each reply is checked for duplicate or dead targets, and a difference left behind by a failed request is attributed to the kind of request that last changed the container's cached values (so only the listed kinds count as known)",
 "C09": "no grant, balloon membership or memory request may belong to a non-live container, and after a generated drain the policy state is compared with a pristine instance of the final configuration",
 "C12": "every adjustment, update and push addressed to an opted-out container is inspected before it is applied to the runtime model",
}.items():
    TEXT[_p] = {"level_text": _hist_text(_w), "level_note": _HIST_NOTE}


TEXT["C10"] = {
 "level_text": "Fault enumeration plus generated content: rapid-generated caches (pods, containers with every persisted field class, policy/config entries) are saved and re-loaded (round trip through a fresh cache object), then the save is repeated under injected faults at every system call of the save path in turn (SIGKILL before/after each open/write/fsync/rename/close via strace -e inject in a re-executed helper process, plus ENOSPC/EIO/EDQUOT write and rename errors and an RLIMIT_FSIZE cut) and the state directory is loaded again: the result must be exactly the old or exactly the new snapshot; after an injected error the helper retries the save in-process and, if that returned nil, the directory must hold exactly the new snapshot. Refusal cases (bad permissions, symlink, unknown version, truncated/corrupt file) are generated as well.",
 "level_note": "Trusted: strace fault injection addresses only the cache file paths (-P); the crash points are the system calls the save path issues on this platform, not power-loss reorderings below the file system. Normalises affinity value order only.",
}
TEXT["C11"] = {
 "level_text": "Fault enumeration over restart points: generated request histories are executed in a helper process that journals the runtime model; the helper is killed at generated request boundaries or in the middle of a request (SIGKILL injected at the cache file rename), a fresh resource manager is started on the surviving state directory and synchronised with the runtime's lists; afterwards nothing unknown to the runtime may be cached, every live container must be cached in its real state, and all invariant libraries of C01-C05/C09 must hold, also after further requests.",
 "level_note": _HIST_NOTE + " Kills are process kills; the file system is assumed to keep completed writes.",
}
TEXT["C13"] = {
 "level_text": "Generated histories with configuration updates at generated request boundaries, three units per policy: re-delivery of the configuration in effect must leave every observable (runtime view, cache view, advertised zones) unchanged; a rejected update (6-8 generated rejection kinds) is compared by a twin execution without the update (differential, guarded by a determinism self-check of 3+3 runs); after an accepted update every invariant library of C01-C05/C09 must hold under the new configuration on that very step.",
 "level_note": _HIST_NOTE,
}
TEXT["C14"] = {
 "level_text": "Generated hostile request sequences (unknown/duplicate ids, requests for removed or never-created objects, missing Linux sections, out-of-order lifecycle, malformed annotations and resources) against the real resource manager and against the memory-qos, memtierd and sgx-epc plugins: no handler may panic, every request returns, and a following well-formed request behaves as on a pristine instance.",
 "level_note": _HIST_NOTE + " Native byte-level fuzzing is not part of the quick tier.",
}
TEXT["C15"] = {
 "level_text": "Generated histories containing concurrent phases (2-5 lifecycle lanes on their own pods, update lanes on distinct existing containers, a configuration update, Synchronize) released at once from separate goroutines on a race-detector build; the detector's reports are read back after every phase (it judges happens-before, so an unserialised access pair is reported whichever order occurred), a watchdog detects deadlock, cache membership must equal the runtime's, every cached decision must have been delivered in a reply of the phase, and all invariant libraries hold after the phase and after each later request. The recording stub models the lock the runtime's NRI adaptation holds while delivering a request: unsolicited updates sent from inside a sequentially delivered request, or while the resource manager lock is held during a configuration update, are reported under 'no request deadlocks'. A second unit drives the asynchronous pod-resource fetch through the real cache with generated answer delays and readers.",
 "level_note": _HIST_NOTE + " The Go scheduler, not the harness, chooses interleavings: schedules are sampled, not enumerated; equality with a particular sequential order is checked through invariants and delivered-decision membership, not by enumerating permutations.",
}
TEXT["C17"] = {
 "level_text": "Generated watch-event histories on the node-specific and group/default streams (adds, modifies, deletes, duplicates, same-generation re-deliveries, other UIDs, invalid and plugin-refused versions): (a) dispatched in order to the agent's update functions as Agent.Start does, 30000 histories per quick run; (b) delivered to the real Agent.Start event loop inside a testing/synctest bubble (harness owns scheduler quiescence and the clock; node watch served through a real client-go clientset over an in-memory transport, configuration watches by in-memory watchers), including concurrent events on both streams, watch expiry/error with re-open after the (virtual) delay, re-delivery after re-open and node group-label changes. Oracle: reference model of what the events say; for concurrent events the set of model states compatible with some processing order.",
 "level_note": "Trusted: the reference model in overlay/agent, testing/synctest of go1.26.8 (the event-loop unit is built with that toolchain), in-memory apiserver stub. The configuration-file mode (inotify watch) is not exercised.",
}
TEXT["C18"] = {
 "level_text": "Generated annotation maps (all subsets of container-specific/pod-wide/bare forms per key, container names that are prefixes or suffixes of each other or contain separators, annotations for other containers) evaluated repeatedly with the map rebuilt in opposite insertion orders, for the cache's effective-annotation lookup and the memory-qos, memtierd and sgx-epc plugins; oracle is a reference precedence written from the documentation.",
 "level_note": "Trusted: reference precedence in the overlays. Map iteration orders are sampled, not enumerated.",
}
TEXT["C19"] = {
 "level_text": "Expressions: 20000 (quick) generated (subject, key, operator, values) tuples per run through a real cache pod/container: negation pairs must disagree, Validate()==nil must imply no panic in Evaluate, key values (incl. joint keys with generated separators) and operator results must equal a reference written from the documented table, Expand must substitute references, parsed affinity weights must lie in [-1000,1000]. Balloon types: generated histories on a real balloons resource manager with generated type lists (0-2 expressions and 0-2 namespace globs per type, explicit reserved/default types at generated positions, reserved namespaces, annotations incl. unknown names); every container sitting in a balloon is compared with a reference selector after every request.",
 "level_note": "Trusted: reference evaluator vfkit/expr.go and reference selector; the undocumented '*' value of Equals/In is not judged by the operator table.",
}

_ALL = ["C%02d" % i for i in range(1, 21)]
NOT_APPLICABLE = [
 {"property_id": p, "reason": "check not built yet in this session (planned, see DESIGN.md section 3); not a statement that the technique cannot apply"}
 for p in _ALL if p not in TEXT
]

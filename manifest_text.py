# Prose for MANIFEST.json, per property.
NOTES = "All checks: ./check <ID> [--tier quick|thorough]; VERIF_SEED selects the rapid seed (0 -> 1). See DESIGN.md."

TEXT = {
 "C20": {
  "level_text": "CPU part: complete enumeration of the stated domain (0..256000 mCPU, shares 2..262144, quota at four periods) against an independent re-implementation of the kubelet encoders, so for the CPU clauses the result is exact, not sampled. Memory part: rapid-generated capacities (thousands per run, seven shapes incl. primes and non-page-aligned values) checked by building the table under recover and round-tripping all 997 Burstable adjustments against the kubelet formula; absence of a failing capacity outside the sample is not established.",
  "level_note": "Trusted: vfkit/kube.go reference formulas (kubelet helpers_linux.go), Go integer/float semantics. Capacity domain sampled, not enumerated.",
 },
}

_ALL = ["C%02d" % i for i in range(1, 21)]
NOT_APPLICABLE = [
 {"property_id": p, "reason": "check not built yet in this session (planned, see DESIGN.md section 3); not a statement that the technique cannot apply"}
 for p in _ALL if p not in TEXT
]

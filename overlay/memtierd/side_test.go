//go:build verif

package main

import (
	"context"
	"fmt"
	"io"
	"os"
	"sort"
	"strings"
	"testing"

	"github.com/containerd/nri/pkg/api"
	"github.com/sirupsen/logrus"
	"pgregory.net/rapid"

	"github.com/containers/nri-plugins/pkg/zzverif/vfkit"
)

func init() {
	log = logrus.StandardLogger()
	log.SetOutput(io.Discard)
}

var sideNames = []string{"c", "cc", "c.c", "c-c", "ac", "ca", "pod", "main", "x/y", ""}

var sideHostile = []string{"", "max", "0", "1000000", "-1", "null", "[1,2]", "{a: b}", "\xff\xfe", strings.Repeat("9", 400), "swap", "noswap", "tracked", "nosuchclass", " swap"}

type sideCase struct {
	Config   string            `json:"config"`
	Ctr      string            `json:"ctr"`
	Ann      map[string]string `json:"ann"`
	Shape    int               `json:"shape"`
	Handlers []string          `json:"handlers"`
}

const mtSuffix = ".memtierd.nri.io"

func mtGen(t *rapid.T) *sideCase {
	c := &sideCase{Ann: map[string]string{}}
	c.Config = rapid.SampledFrom([]string{"", "std", "std", "std", "!classes: 5", "!{{{", "!classes:\n- name: swap\n  allowswap: true\n- name: tracked\n  memtierdconfig: \"policy: {}\"", "!null", "!classes:\n- null"}).Draw(t, "config")
	c.Ctr = rapid.SampledFrom(sideNames).Draw(t, "ctr")
	c.Shape = rapid.SampledFrom([]int{0, 0, 0, 0, 1, 2, 3}).Draw(t, "shape")
	keys := []string{"class", "memory.high", "memory.swap.max", "bogus"}
	n := rapid.IntRange(0, 5).Draw(t, "nann")
	for i := 0; i < n; i++ {
		key := rapid.SampledFrom(keys).Draw(t, "key")
		val := rapid.SampledFrom(sideHostile).Draw(t, "val")
		if key == "class" && rapid.IntRange(0, 3).Draw(t, "validClass") != 0 {
			val = rapid.SampledFrom([]string{"swap", "noswap", "tracked", "plain", "nosuchclass", ""}).Draw(t, "classVal")
		}
		switch rapid.IntRange(0, 2).Draw(t, "form") {
		case 0:
			c.Ann[key+mtSuffix] = val
		case 1:
			c.Ann[key+mtSuffix+"/"+c.Ctr] = val
		default:
			c.Ann[key+mtSuffix+"/"+rapid.SampledFrom(sideNames).Draw(t, "other")] = val
		}
	}
	c.Handlers = rapid.SliceOfN(rapid.SampledFrom([]string{"CreateContainer", "StartContainer", "StopContainer", "StopContainer", "StartContainer"}), 1, 5).Draw(t, "handlers")
	return c
}

func mtPlugin(c *sideCase) (*plugin, error) {
	p := &plugin{ctrMemtierdEnv: map[string]*memtierdEnv{}}
	base := os.Getenv("VERIF_SCRATCH")
	if base == "" {
		base = os.TempDir()
	}
	opt.runDir = base + "/memtierd-run"
	p.cgroupsDir = base + "/memtierd-cgroups"
	_ = os.MkdirAll(p.cgroupsDir, 0o755)
	yes, no := true, false
	switch {
	case c.Config == "":
	case c.Config == "std":
		p.config = &pluginConfig{Classes: []qosClass{{Name: "swap", AllowSwap: &yes}, {Name: "noswap", AllowSwap: &no}, {Name: "tracked", MemtierdConfig: "policy:\n  name: age\n"}, {Name: "plain"}}}
	default:
		if _, err := p.Configure(context.Background(), strings.TrimPrefix(c.Config, "!"), "runtime", "v1"); err != nil {
			return p, err
		}
	}
	return p, nil
}

func sideCtr(c *sideCase) *api.Container {
	ctr := &api.Container{Id: "id1", PodSandboxId: "pod1", Name: c.Ctr}
	if c.Shape&1 == 0 {
		ctr.Linux = &api.LinuxContainer{CgroupsPath: "/kubepods/x"}
		if c.Shape&2 == 0 {
			ctr.Linux.Resources = &api.LinuxResources{Memory: &api.LinuxMemory{}}
		}
	}
	return ctr
}

func sideEffective(ann map[string]string, suffix, ctr string) map[string]string {
	eff := map[string]string{}
	for k, v := range ann {
		if p, ok := strings.CutSuffix(k, suffix); ok {
			eff[p] = v
		}
	}
	for k, v := range ann {
		if p, ok := strings.CutSuffix(k, suffix+"/"+ctr); ok {
			eff[p] = v
		}
	}
	return eff
}

func sortedMap(m map[string]string) string {
	ks := []string{}
	for k, v := range m {
		ks = append(ks, k+"="+v)
	}
	sort.Strings(ks)
	return strings.Join(ks, ";")
}

func mtCheck(c *sideCase) (v14, v18 *vfkit.Violation, interpreted bool) {
	var first string
	for round := 0; round < 8; round++ {
		var (
			adj    *api.ContainerAdjustment
			err    error
			pan    any
			where  string
			called bool
		)
		func() {
			defer func() { pan = recover() }()
			p, cerr := mtPlugin(c)
			if cerr != nil {
				err = cerr
				return
			}
			ann := map[string]string{}
			keys := []string{}
			for k := range c.Ann {
				keys = append(keys, k)
			}
			sort.Strings(keys)
			if round%2 == 1 {
				for i, j := 0, len(keys)-1; i < j; i, j = i+1, j-1 {
					keys[i], keys[j] = keys[j], keys[i]
				}
			}
			for _, k := range keys {
				ann[k] = c.Ann[k]
			}
			pod := &api.PodSandbox{Id: "pod1", Name: "p", Namespace: "ns", Annotations: ann}
			for _, h := range c.Handlers {
				where = h
				switch h {
				case "CreateContainer":
					if !called {
						adj, _, err = p.CreateContainer(context.Background(), pod, sideCtr(c))
						called = true
					} else {
						_, _, _ = p.CreateContainer(context.Background(), pod, sideCtr(c))
					}
				case "StartContainer":
					_ = p.StartContainer(context.Background(), pod, sideCtr(c))
				case "StopContainer":
					_, _ = p.StopContainer(context.Background(), pod, sideCtr(c))
				}
			}
			if !called {
				adj, _, err = p.CreateContainer(context.Background(), pod, sideCtr(c))
			}
		}()
		if pan != nil {
			return &vfkit.Violation{Property: "C14", Clause: "every handler of the side plugins returns and never panics", Signature: "panic:memtierd:" + where,
				Detail: fmt.Sprintf("%+v: %v", *c, pan)}, nil, true
		}
		got := "err"
		if err == nil {
			got = "ok:" + sortedMap(adj.GetLinux().GetResources().GetUnified())
		}
		if round == 0 {
			first = got
		} else if got != first {
			return nil, &vfkit.Violation{Property: "C18", Clause: "the result does not depend on the order in which annotations are stored", Signature: "order-dependent:memtierd",
				Detail: fmt.Sprintf("%+v: %q vs %q", *c, first, got)}, true
		}
	}
	eff := sideEffective(c.Ann, mtSuffix, c.Ctr)
	interpreted = len(eff) > 0
	if c.Config != "std" {
		return nil, nil, interpreted
	}
	wantErr := false
	want := map[string]string{}
	if cls, ok := eff["class"]; ok && cls != "" {
		switch cls {
		case "swap":
			want["memory.swap.max"] = "max"
		case "noswap":
			want["memory.swap.max"] = "0"
		case "tracked", "plain":
		default:
			wantErr = true
		}
	}
	for _, k := range []string{"memory.swap.max", "memory.high"} { // explicit parameters override the class-derived ones
		if val, ok := eff[k]; ok {
			want[k] = val
		}
	}
	if wantErr != (first == "err") {
		return nil, &vfkit.Violation{Property: "C18", Clause: "effective annotations decide acceptance", Signature: "acceptance-differs:memtierd",
			Detail: fmt.Sprintf("%+v: effective %v, expected error=%v, got %q", *c, eff, wantErr, first)}, interpreted
	}
	if !wantErr && first != "ok:"+sortedMap(want) {
		return nil, &vfkit.Violation{Property: "C18", Clause: "container-specific beats pod-wide; explicit parameter beats the class-derived one; other containers' annotations have no effect",
			Signature: "unified-value-differs:memtierd", Detail: fmt.Sprintf("%+v: effective %v, expected %q, got %q", *c, eff, "ok:"+sortedMap(want), first)}, interpreted
	}
	return nil, nil, interpreted
}

func TestVerifSideMemtierd(t *testing.T) {
	defer vfkit.Flush()
	rapid.Check(t, func(t *rapid.T) {
		c := mtGen(t)
		v14, v18, interp := mtCheck(c)
		forms := 0
		seen := map[string]int{}
		for k := range c.Ann {
			if i := strings.Index(k, mtSuffix); i > 0 {
				seen[k[:i]]++
			}
		}
		for _, n := range seen {
			if n >= 2 {
				forms++
			}
		}
		vfkit.For("C14").Case("memtierd", interp, vfkit.Hash(c), "config:"+strings.SplitN(c.Config, ":", 2)[0])
		vfkit.For("C18").Case("memtierd", forms > 0, vfkit.Hash(c))
		if forms > 0 && vfkit.For("C18").WantSample() {
			vfkit.For("C18").Sample(c)
		}
		if v14 != nil {
			vfkit.For("C14").Report(t, "memtierd", v14, c)
		}
		if v18 != nil {
			vfkit.For("C18").Report(t, "memtierd", v18, c)
		}
	})
}

func TestVerifSideMemtierdReplay(t *testing.T) {
	c := &sideCase{}
	rf, ok, err := vfkit.LoadReplay(c)
	if !ok || rf.Unit != "memtierd" {
		t.Skip("no replay file for this unit")
	}
	if err != nil {
		t.Fatalf("replay: %v", err)
	}
	v14, v18, _ := mtCheck(c)
	if v14 != nil {
		vfkit.For("C14").Report(t, "memtierd", v14, c)
	}
	if v18 != nil {
		vfkit.For("C18").Report(t, "memtierd", v18, c)
	}
}

//go:build verif && go1.25

package agent

import (
	"context"
	"encoding/json"
	"fmt"
	"io"
	"net/http"
	"strings"
	"sync"
	"testing"
	"testing/synctest"
	"time"

	"pgregory.net/rapid"

	metav1 "k8s.io/apimachinery/pkg/apis/meta/v1"
	"k8s.io/apimachinery/pkg/watch"
	k8sclient "k8s.io/client-go/kubernetes"
	"k8s.io/client-go/rest"

	"github.com/containers/nri-plugins/pkg/zzverif/vfkit"
)

// C17 through the real event loop of Agent.Start. The harness owns the
// schedule and the clock (testing/synctest bubble): the node watch is served
// by an in-memory HTTP round tripper under a real client-go clientset, the
// configuration watches by in-memory watchers handed out by a stub
// ConfigInterface; synctest.Wait is the acknowledgement that the agent has
// finished processing what was sent.

type c17Watch struct {
	name string
	ch   chan watch.Event
	stop chan struct{}
	once sync.Once
}

func (w *c17Watch) Stop()                          { w.once.Do(func() { close(w.stop) }) }
func (w *c17Watch) ResultChan() <-chan watch.Event { return w.ch }
func (w *c17Watch) send(ev watch.Event) bool {
	select {
	case w.ch <- ev:
		return true
	case <-w.stop:
		return false
	}
}
func (w *c17Watch) stopped() bool {
	select {
	case <-w.stop:
		return true
	default:
		return false
	}
}

// in-memory apiserver for the node watch
type c17NodeRT struct {
	mu      sync.Mutex
	streams []*io.PipeWriter
	opened  int
}

func (rt *c17NodeRT) RoundTrip(req *http.Request) (*http.Response, error) {
	if !strings.HasSuffix(req.URL.Path, "/nodes") || req.URL.Query().Get("watch") == "" {
		return &http.Response{StatusCode: 404, Status: "404 Not Found", Header: http.Header{"Content-Type": {"application/json"}},
			Body: io.NopCloser(strings.NewReader(`{"kind":"Status","apiVersion":"v1","status":"Failure","code":404}`)), Request: req}, nil
	}
	r, w := io.Pipe()
	rt.mu.Lock()
	rt.streams = append(rt.streams, w)
	rt.opened++
	rt.mu.Unlock()
	return &http.Response{StatusCode: 200, Status: "200 OK", Proto: "HTTP/1.1", ProtoMajor: 1, ProtoMinor: 1,
		Header: http.Header{"Content-Type": {"application/json"}}, Body: r, Request: req}, nil
}

func (rt *c17NodeRT) sendNode(typ, group, labelKey string) bool {
	rt.mu.Lock()
	var w *io.PipeWriter
	if len(rt.streams) > 0 {
		w = rt.streams[len(rt.streams)-1]
	}
	rt.mu.Unlock()
	if w == nil {
		return false
	}
	labels := map[string]string{}
	if group != "" {
		labels[labelKey] = group
	}
	frame, _ := json.Marshal(map[string]any{"type": typ, "object": map[string]any{"kind": "Node", "apiVersion": "v1",
		"metadata": map[string]any{"name": "n1", "uid": "node-uid", "labels": labels}}})
	_, err := w.Write(append(frame, '\n'))
	return err == nil
}

type c17LoopOp struct {
	Op        string  `json:"op"` // cr | label | expire | error | burst
	Ev        *c17Ev  `json:"ev,omitempty"`
	Group     string  `json:"group,omitempty"`
	Label     string  `json:"label,omitempty"` // which label key carries the group
	Kind      string  `json:"kind,omitempty"`  // for expire/error
	Burst     []c17Ev `json:"burst,omitempty"`
	Redeliver bool    `json:"redeliver,omitempty"` // after a reopen the server sends ADDED for the last version again
}

type c17LoopCase struct {
	Salt int         `json:"salt"`
	Ops  []c17LoopOp `json:"ops"`
}

func c17GenEv(t *rapid.T, salt int, kind string) c17Ev {
	if kind == "" {
		kind = rapid.SampledFrom([]string{"node", "group"}).Draw(t, "kind")
	}
	ev := c17Ev{Kind: kind}
	ev.Type = rapid.SampledFrom([]string{"ADDED", "MODIFIED", "MODIFIED", "DELETED"}).Draw(t, "type")
	if ev.Type != "DELETED" {
		ev.Obj = c17GenObj(t, ev.Kind, salt)
	}
	ev.NotifyErr = rapid.IntRange(0, 7).Draw(t, "notifyErr") == 0
	return ev
}

func c17GenLoop(t *rapid.T) *c17LoopCase {
	c := &c17LoopCase{Salt: rapid.IntRange(0, 3).Draw(t, "salt")}
	// the node object arrives first, as it does from a real apiserver
	c.Ops = append(c.Ops, c17LoopOp{Op: "label", Group: rapid.SampledFrom([]string{"", "", "g1"}).Draw(t, "group0"), Label: "config.nri/group"})
	n := rapid.IntRange(2, 14).Draw(t, "nops")
	for i := 0; i < n; i++ {
		switch rapid.IntRange(0, 11).Draw(t, "opKind") {
		case 0:
			c.Ops = append(c.Ops, c17LoopOp{Op: "label", Group: rapid.SampledFrom([]string{"", "g1", "g2"}).Draw(t, "group"),
				Label: rapid.SampledFrom([]string{"config.nri/group", "config.nri/group", "group.config.nri", "resource-policy.nri.io/group"}).Draw(t, "labelKey")})
		case 1:
			c.Ops = append(c.Ops, c17LoopOp{Op: "expire", Kind: rapid.SampledFrom([]string{"node", "group"}).Draw(t, "expKind"), Redeliver: rapid.Bool().Draw(t, "redeliver")})
		case 2:
			c.Ops = append(c.Ops, c17LoopOp{Op: "error", Kind: rapid.SampledFrom([]string{"node", "group"}).Draw(t, "errKind"), Redeliver: rapid.Bool().Draw(t, "redeliver")})
		case 3, 4, 5:
			op := c17LoopOp{Op: "burst"}
			k := rapid.IntRange(2, 3).Draw(t, "nburst")
			for j := 0; j < k; j++ {
				op.Burst = append(op.Burst, c17GenEv(t, c.Salt, []string{"node", "group", ""}[j]))
			}
			c.Ops = append(c.Ops, op)
		default:
			ev := c17GenEv(t, c.Salt, "")
			c.Ops = append(c.Ops, c17LoopOp{Op: "cr", Ev: &ev})
		}
	}
	return c
}

type c17Loop struct {
	mu       sync.Mutex
	watches  map[string]*c17Watch // kind -> latest watcher
	created  map[string]int
	notified []*c17Obj
	refuse   map[string]bool // versions the plugin refuses
	lastSent map[string]*c17Obj
}

func (l *c17Loop) kindOf(name string) string {
	if strings.HasPrefix(name, "node.") {
		return "node"
	}
	return "group"
}

func (l *c17Loop) createWatch(ctx context.Context, ns, name string) (watch.Interface, error) {
	w := &c17Watch{name: name, ch: make(chan watch.Event), stop: make(chan struct{})}
	l.mu.Lock()
	k := l.kindOf(name)
	l.watches[k] = w
	l.created[k]++
	l.mu.Unlock()
	return w, nil
}

func (l *c17Loop) watcher(kind string) *c17Watch {
	l.mu.Lock()
	defer l.mu.Unlock()
	w := l.watches[kind]
	if w == nil || w.stopped() {
		return nil
	}
	return w
}

func c17WatchEvent(ev *c17Ev) watch.Event {
	e := watch.Event{Type: watch.EventType(ev.Type)}
	if ev.Obj != nil {
		e.Object = ev.Obj.object()
	} else {
		// a DELETED event carries the last state of the object
		e.Object = (&c17Obj{Name: "deleted", UID: "deleted", Gen: 1}).object()
	}
	return e
}

// c17States is the set of model states compatible with what was observed so
// far: concurrently delivered events may have been processed in any order.
type c17States []c17Model

func (m *c17Model) stateKey() string {
	last := "<none>"
	if n := len(m.delivered); n > 0 {
		last = m.delivered[n-1].key()
	}
	return m.node.key() + "|" + m.group.key() + "|" + last
}

// judge accepts the notifications of a set of concurrently delivered events
// (one event: no concurrency) if some processing order explains them from
// some compatible state, and narrows the state set to the explanations.
func (ss *c17States) judge(evs []*c17Ev, notified []*c17Obj, info *c17Info) *vfkit.Violation {
	var first *vfkit.Violation
	out, seen := c17States{}, map[string]bool{}
	var try func(m c17Model, rest []*c17Ev, notes []*c17Obj, acc c17Info)
	try = func(m c17Model, rest []*c17Ev, notes []*c17Obj, acc c17Info) {
		if len(rest) == 0 {
			if len(notes) == 0 && !seen[m.stateKey()] {
				seen[m.stateKey()] = true
				out = append(out, m)
				*info = acc
			}
			return
		}
		for i := range rest {
			others := append(append([]*c17Ev{}, rest[:i]...), rest[i+1:]...)
			for take := 0; take <= 1 && take <= len(notes); take++ {
				mm := m
				mm.delivered = append([]*c17Obj{}, m.delivered...)
				scratch := acc
				if v := mm.judge(rest[i], notes[:take], &scratch); v != nil {
					if first == nil {
						first = v
					}
					continue
				}
				try(mm, others, notes[take:], scratch)
			}
		}
	}
	for _, m := range *ss {
		try(m, evs, notified, *info)
	}
	if len(out) == 0 {
		if first == nil {
			first = &vfkit.Violation{Property: c17, Clause: "the notifications equal those of some sequential order of the events", Signature: "unexplained-notifications"}
		}
		if len(evs) > 1 || len(*ss) > 1 {
			first.Detail = fmt.Sprintf("no processing order of %d concurrent events from any of %d compatible states explains %d notifications; first objection: %s", len(evs), len(*ss), len(notified), first.Detail)
		}
		return first
	}
	*ss = out
	return nil
}

func c17RunLoop(c *c17LoopCase) (v *vfkit.Violation, info *c17Info, labels map[string]bool) {
	info, labels = &c17Info{}, map[string]bool{}
	l := &c17Loop{watches: map[string]*c17Watch{}, created: map[string]int{}, refuse: map[string]bool{}, lastSent: map[string]*c17Obj{}}
	cif := &c17CfgIf{create: l.createWatch}
	a, err := New(cif, func(a *Agent) error { a.nodeName = "n1"; a.configFile = ""; a.kubeConfig = ""; return nil })
	if err != nil {
		panic(err)
	}
	rt := &c17NodeRT{}
	a.httpCli = &http.Client{Transport: rt}
	a.k8sCli, err = k8sclient.NewForConfigAndClient(&rest.Config{Host: "http://apiserver.invalid"}, a.httpCli)
	if err != nil {
		panic(err)
	}
	done := make(chan error, 1)
	go func() {
		done <- a.Start(func(cfg interface{}) (bool, error) {
			o := c17Describe(cfg)
			l.mu.Lock()
			defer l.mu.Unlock()
			l.notified = append(l.notified, o)
			if l.refuse[o.key()] {
				return false, fmt.Errorf("refused by the plugin")
			}
			return false, nil
		})
	}()
	synctest.Wait()
	defer func() {
		close(a.stopC)
		synctest.Wait()
		select {
		case <-done:
		default:
			if v == nil {
				v = &vfkit.Violation{Property: c17, Clause: "the agent's event loop terminates when stopped", Signature: "event-loop-did-not-stop"}
			}
		}
	}()
	select {
	case err := <-done:
		panic(fmt.Sprintf("agent did not start: %v", err))
	default:
	}
	m := &c17States{{}}
	take := func() []*c17Obj {
		l.mu.Lock()
		defer l.mu.Unlock()
		n := l.notified
		l.notified = nil
		return n
	}
	send := func(ev *c17Ev) bool {
		w := l.watcher(ev.Kind)
		if w == nil {
			return false
		}
		if ev.Obj != nil && ev.NotifyErr {
			l.mu.Lock()
			l.refuse[ev.Obj.key()] = true
			l.mu.Unlock()
		}
		if ev.Obj != nil && ev.Obj.Invalid {
			info.invalid++
		}
		ok := w.send(c17WatchEvent(ev))
		if ok {
			l.mu.Lock()
			l.lastSent[ev.Kind] = ev.Obj
			l.mu.Unlock()
		}
		return ok
	}
	for i := range c.Ops {
		op := &c.Ops[i]
		switch op.Op {
		case "label":
			before := l.created["group"]
			if !rt.sendNode("MODIFIED", op.Group, op.Label) {
				panic("node watch is not open")
			}
			synctest.Wait()
			if n := take(); len(n) > 0 {
				return &vfkit.Violation{Property: c17, Clause: "only configuration events cause re-configuration", Signature: "node-label-change-delivered-configuration",
					Detail: fmt.Sprintf("op %d: node event delivered %s", i, n[0].key())}, info, labels
			}
			if l.created["group"] > before && before > 0 {
				labels["group-switched"] = true
			}
		case "cr":
			if !send(op.Ev) {
				continue
			}
			synctest.Wait()
			if v := m.judge([]*c17Ev{op.Ev}, take(), info); v != nil {
				v.Detail = fmt.Sprintf("op %d: %s", i, v.Detail)
				return v, info, labels
			}
		case "burst":
			var wg sync.WaitGroup
			sent := make([]bool, len(op.Burst))
			for j := range op.Burst {
				wg.Add(1)
				go func(j int) {
					defer wg.Done()
					sent[j] = send(&op.Burst[j])
				}(j)
			}
			wg.Wait()
			synctest.Wait()
			evs := []*c17Ev{}
			for j := range op.Burst {
				if sent[j] {
					evs = append(evs, &op.Burst[j])
				}
			}
			if len(evs) >= 2 {
				labels["concurrent-events"] = true
			}
			if v := m.judge(evs, take(), info); v != nil {
				v.Detail = fmt.Sprintf("op %d: %s", i, v.Detail)
				return v, info, labels
			}
		case "expire", "error":
			w := l.watcher(op.Kind)
			if w == nil {
				continue
			}
			before := l.created[op.Kind]
			if op.Op == "expire" {
				close(w.ch)
			} else if !w.send(watch.Event{Type: watch.Error, Object: &metav1.Status{Status: "Failure", Message: "injected"}}) {
				continue
			}
			synctest.Wait()
			time.Sleep(6 * time.Second) // fake clock: past the reopen delay
			synctest.Wait()
			if l.created[op.Kind] == before || l.watcher(op.Kind) == nil {
				return &vfkit.Violation{Property: c17, Clause: "watches are re-established", Signature: "watch-not-reopened:" + op.Op,
					Detail: fmt.Sprintf("op %d: %s watch of %s was not re-created", i, op.Kind, w.name)}, info, labels
			}
			labels["watch-reopened:"+op.Op] = true
			if n := take(); len(n) > 0 {
				return &vfkit.Violation{Property: c17, Clause: "only configuration events cause re-configuration", Signature: "watch-reopen-delivered-configuration",
					Detail: fmt.Sprintf("op %d: delivered %s", i, n[0].key())}, info, labels
			}
			if last := l.lastSent[op.Kind]; op.Redeliver && last != nil {
				// the new watch starts with the current state of the resource
				ev := &c17Ev{Kind: op.Kind, Type: "ADDED", Obj: last}
				if send(ev) {
					synctest.Wait()
					labels["re-delivery-after-reopen"] = true
					if v := m.judge([]*c17Ev{ev}, take(), info); v != nil {
						v.Detail = fmt.Sprintf("op %d (re-delivery after %s): %s", i, op.Op, v.Detail)
						return v, info, labels
					}
				}
			}
		}
	}
	return nil, info, labels
}

func c17CheckLoop(t *testing.T, c *c17LoopCase) (v *vfkit.Violation, info *c17Info, labels map[string]bool) {
	synctest.Test(t, func(*testing.T) {
		v, info, labels = c17RunLoop(c)
	})
	return
}

func TestVerifC17Loop(t *testing.T) {
	defer vfkit.Flush()
	st := vfkit.For(c17)
	rapid.Check(t, func(rt *rapid.T) {
		c := c17GenLoop(rt)
		v, info, lm := c17CheckLoop(t, c)
		nt, labels := c17Labels(info)
		for k := range lm {
			labels = append(labels, k)
		}
		nt = nt && lm["concurrent-events"]
		st.Case("event-loop", nt, vfkit.Hash(c), labels...)
		if nt && st.WantSample() {
			st.Sample(c)
		}
		if v != nil {
			st.Report(rt, "event-loop", v, c)
		}
	})
}

func TestVerifC17LoopReplay(t *testing.T) {
	c := &c17LoopCase{}
	rf, ok, err := vfkit.LoadReplay(c)
	if !ok || rf.Unit != "event-loop" {
		t.Skip("no replay file for this unit")
	}
	if err != nil {
		t.Fatalf("replay: %v", err)
	}
	for i := 0; i < 25; i++ {
		if v, _, _ := c17CheckLoop(t, c); v != nil {
			vfkit.For(c17).Report(t, "event-loop", v, c)
			return
		}
	}
}

//go:build verif

package agent

import (
	"context"
	"fmt"
	"net/http"
	"sync"
	"testing"

	"pgregory.net/rapid"

	metav1 "k8s.io/apimachinery/pkg/apis/meta/v1"
	"k8s.io/apimachinery/pkg/runtime"
	"k8s.io/apimachinery/pkg/types"
	"k8s.io/apimachinery/pkg/watch"
	"k8s.io/client-go/rest"

	cfgapi "github.com/containers/nri-plugins/pkg/apis/config/v1alpha1"
	blncfg "github.com/containers/nri-plugins/pkg/apis/config/v1alpha1/resmgr/policy/balloons"
	resmgrapi "github.com/containers/nri-plugins/pkg/apis/resmgr/v1alpha1"
	"github.com/containers/nri-plugins/pkg/zzverif/vfkit"
)

const c17 = "C17"

// c17Obj describes one version of a configuration custom resource.
type c17Obj struct {
	Name    string `json:"name"`
	UID     string `json:"uid"`
	Gen     int64  `json:"gen"`
	Invalid bool   `json:"invalid,omitempty"`
}

func (o *c17Obj) key() string {
	if o == nil {
		return "<none>"
	}
	return fmt.Sprintf("%s/%s@%d", o.Name, o.UID, o.Gen)
}

func (o *c17Obj) object() runtime.Object {
	p := &cfgapi.BalloonsPolicy{ObjectMeta: metav1.ObjectMeta{Name: o.Name, Namespace: "kube-system", UID: types.UID(o.UID), Generation: o.Gen}}
	p.Kind, p.APIVersion = "BalloonsPolicy", "config.nri/v1alpha1"
	if o.Invalid {
		p.Spec.Config.BalloonDefs = []*blncfg.BalloonDef{{Name: "t", MatchExpressions: []resmgrapi.Expression{{Key: "name", Op: "NoSuchOperator"}}}}
	}
	return p
}

func c17Describe(cfg interface{}) *c17Obj {
	p, ok := cfg.(*cfgapi.BalloonsPolicy)
	if !ok || p == nil {
		return &c17Obj{Name: fmt.Sprintf("%T", cfg)}
	}
	return &c17Obj{Name: p.Name, UID: string(p.UID), Gen: p.Generation, Invalid: p.Validate() != nil}
}

// validity is a function of the resource version, as in a cluster
func c17Invalid(uid string, gen int64, salt int) bool {
	return (len(uid)*7+int(gen)*3+salt)%4 == 0
}

// c17Ev is one watch event.
type c17Ev struct {
	Kind      string  `json:"kind"` // node | group
	Type      string  `json:"type"` // ADDED | MODIFIED | DELETED
	Obj       *c17Obj `json:"obj,omitempty"`
	NotifyErr bool    `json:"notify_err,omitempty"` // the plugin refuses the configuration (non-fatal)
}

type c17Case struct {
	Salt   int     `json:"salt"`
	Events []c17Ev `json:"events"`
}

func c17GenObj(t *rapid.T, kind string, salt int) *c17Obj {
	name := "node.n1"
	if kind == "group" {
		name = rapid.SampledFrom([]string{"default", "default", "group.g1"}).Draw(t, "groupName")
	}
	uid := rapid.SampledFrom([]string{"u-a", "u-bb"}).Draw(t, "uid")
	gen := int64(rapid.IntRange(1, 3).Draw(t, "generation"))
	return &c17Obj{Name: name, UID: name + "-" + uid, Gen: gen, Invalid: c17Invalid(name+uid, gen, salt)}
}

func c17Gen(t *rapid.T) *c17Case {
	c := &c17Case{Salt: rapid.IntRange(0, 3).Draw(t, "salt")}
	n := rapid.IntRange(1, 14).Draw(t, "nevents")
	for i := 0; i < n; i++ {
		ev := c17Ev{Kind: rapid.SampledFrom([]string{"node", "group"}).Draw(t, "kind")}
		ev.Type = rapid.SampledFrom([]string{"ADDED", "MODIFIED", "MODIFIED", "DELETED"}).Draw(t, "type")
		if ev.Type != "DELETED" {
			ev.Obj = c17GenObj(t, ev.Kind, c.Salt)
		}
		ev.NotifyErr = rapid.IntRange(0, 5).Draw(t, "notifyErr") == 0
		c.Events = append(c.Events, ev)
	}
	return c
}

// c17Model is what the events delivered so far say.
type c17Model struct {
	node, group *c17Obj
	delivered   []*c17Obj
}

func (m *c17Model) effective() *c17Obj {
	if m.node != nil {
		return m.node
	}
	return m.group
}

func same(a, b *c17Obj) bool {
	return (a == nil && b == nil) || (a != nil && b != nil && a.UID == b.UID && a.Gen == b.Gen && a.Name == b.Name)
}

// judge checks the notifications caused by one event against the property
func (m *c17Model) judge(ev *c17Ev, notified []*c17Obj, info *c17Info) *vfkit.Violation {
	vi := func(clause, sig, f string, a ...any) *vfkit.Violation {
		return &vfkit.Violation{Property: c17, Clause: clause, Signature: sig, Detail: fmt.Sprintf("event %s %s %s: ", ev.Kind, ev.Type, ev.Obj.key()) + fmt.Sprintf(f, a...)}
	}
	stored := m.group
	if ev.Kind == "node" {
		stored = m.node
	}
	dup := same(ev.Obj, stored)
	if ev.Kind == "node" {
		m.node = ev.Obj
	} else {
		m.group = ev.Obj
	}
	eff := m.effective()
	for _, n := range notified {
		if n.Invalid {
			return vi("a configuration failing validation is never handed to the plugin", "invalid-configuration-delivered", "delivered %s", n.key())
		}
	}
	if dup && len(notified) > 0 {
		return vi("re-delivery of an already applied resource version causes no re-configuration", "duplicate-caused-reconfiguration", "%d notifications (%s)", len(notified), notified[0].key())
	}
	if dup {
		info.dups++
	}
	if ev.Kind == "group" && m.node != nil {
		info.shadowed++
		if len(notified) > 0 {
			return vi("a group or default update never replaces an existing node-specific configuration", "group-update-delivered-over-node-config", "delivered %s while %s exists", notified[0].key(), m.node.key())
		}
	}
	for _, n := range notified {
		if !same(n, eff) {
			return vi("the delivered configuration is the node-specific one if it exists, otherwise the most recent group/default one", "delivered-other-than-effective", "delivered %s, effective %s", n.key(), eff.key())
		}
	}
	m.delivered = append(m.delivered, notified...)
	if eff != nil && !eff.Invalid {
		var last *c17Obj
		if len(m.delivered) > 0 {
			last = m.delivered[len(m.delivered)-1]
		}
		if !same(last, eff) {
			sig := "last-delivered-is-not-effective"
			if ev.Kind == "node" && ev.Obj == nil {
				sig = "no-fallback-to-group-after-node-config-deleted"
			}
			return vi("the most recently delivered configuration is the effective one", sig, "last delivered %s, effective %s", last.key(), eff.key())
		}
	}
	if ev.Kind == "node" && ev.Obj == nil && !dup && m.group != nil {
		info.fallbacks++
	}
	return nil
}

type c17Info struct{ dups, shadowed, fallbacks, invalid int }

// stub configuration interface: no cluster
type c17CfgIf struct {
	mu      sync.Mutex
	patches int
	create  func(ctx context.Context, ns, name string) (watch.Interface, error)
}

func (c *c17CfgIf) SetKubeClient(*http.Client, *rest.Config) error { return nil }
func (c *c17CfgIf) CreateWatch(ctx context.Context, ns, name string) (watch.Interface, error) {
	if c.create != nil {
		return c.create(ctx, ns, name)
	}
	return nil, fmt.Errorf("no cluster")
}
func (c *c17CfgIf) PatchStatus(context.Context, string, string, types.PatchType, []byte, metav1.PatchOptions) error {
	c.mu.Lock()
	c.patches++
	c.mu.Unlock()
	return nil
}
func (c *c17CfgIf) Unmarshal([]byte, string) (runtime.Object, error) {
	return nil, fmt.Errorf("not a file")
}

// direct unit: events are fed to the agent's update functions in order
func c17CheckDirect(c *c17Case) (*vfkit.Violation, *c17Info) {
	a, err := New(&c17CfgIf{}, func(a *Agent) error { a.nodeName = "n1"; a.configFile = ""; return nil })
	if err != nil {
		panic(err)
	}
	var notified []*c17Obj
	refuse := false
	a.notifyFn = func(cfg interface{}) (bool, error) {
		notified = append(notified, c17Describe(cfg))
		if refuse {
			return false, fmt.Errorf("refused by the plugin")
		}
		return false, nil
	}
	m, info := &c17Model{}, &c17Info{}
	for i := range c.Events {
		ev := &c.Events[i]
		notified, refuse = nil, ev.NotifyErr
		var obj runtime.Object
		if ev.Obj != nil {
			obj = ev.Obj.object()
			if ev.Obj.Invalid {
				info.invalid++
			}
		}
		// the dispatch of Agent.Start
		switch {
		case ev.Kind == "node" && ev.Type != "DELETED":
			a.updateNodeConfig(obj)
		case ev.Kind == "node":
			a.updateNodeConfig(nil)
		case ev.Type != "DELETED":
			a.updateGroupConfig(obj)
		default:
			a.updateGroupConfig(nil)
		}
		if v := m.judge(ev, notified, info); v != nil {
			return v, info
		}
	}
	return nil, info
}

func c17Labels(info *c17Info) (bool, []string) {
	labels := []string{}
	if info.dups > 0 {
		labels = append(labels, "duplicate-delivery")
	}
	if info.shadowed > 0 {
		labels = append(labels, "group-update-while-node-config-exists")
	}
	if info.fallbacks > 0 {
		labels = append(labels, "fallback-to-group")
	}
	if info.invalid > 0 {
		labels = append(labels, "invalid-configuration")
	}
	return info.shadowed > 0 && info.fallbacks > 0, labels
}

func TestVerifC17Direct(t *testing.T) {
	defer vfkit.Flush()
	st := vfkit.For(c17)
	rapid.Check(t, func(t *rapid.T) {
		c := c17Gen(t)
		v, info := c17CheckDirect(c)
		nt, labels := c17Labels(info)
		st.Case("direct", nt, vfkit.Hash(c), labels...)
		if nt && st.WantSample() {
			st.Sample(c)
		}
		if v != nil {
			st.Report(t, "direct", v, c)
		}
	})
}

func TestVerifC17DirectReplay(t *testing.T) {
	c := &c17Case{}
	rf, ok, err := vfkit.LoadReplay(c)
	if !ok || rf.Unit != "direct" {
		t.Skip("no replay file for this unit")
	}
	if err != nil {
		t.Fatalf("replay: %v", err)
	}
	if v, _ := c17CheckDirect(c); v != nil {
		vfkit.For(c17).Report(t, "direct", v, c)
	}
}

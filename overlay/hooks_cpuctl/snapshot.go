//go:build verif && verifwb

package cpu

import "github.com/containers/nri-plugins/pkg/resmgr/cache"

// VerifAssignments returns the current CPU class assignments (class -> CPUs)
// as stored in the cache; read-only, for the verification harness.
func VerifAssignments(c cache.Cache) map[string][]int {
	out := map[string][]int{}
	for class, ids := range *getClassAssignments(c) {
		out[class] = ids.SortedMembers()
	}
	return out
}

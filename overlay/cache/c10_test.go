//go:build verif

package cache

import (
	"encoding/json"
	"fmt"
	"os"
	"os/exec"
	"path/filepath"
	"sort"
	"strings"
	"syscall"
	"testing"

	nri "github.com/containerd/nri/pkg/api"
	v1 "k8s.io/api/core/v1"
	"pgregory.net/rapid"

	logger "github.com/containers/nri-plugins/pkg/log"
	"github.com/containers/nri-plugins/pkg/utils/cpuset"
	"github.com/containers/nri-plugins/pkg/zzverif/vfkit"
)

const c10 = "C10"

func init() { logger.SetLevel(logger.LevelError) }

// ---------------------------------------------------------------------------
// case description
// ---------------------------------------------------------------------------

type c10Pod struct {
	ID          string            `json:"id"`
	Name        string            `json:"name"`
	UID         string            `json:"uid"`
	Namespace   string            `json:"ns"`
	Labels      map[string]string `json:"labels,omitempty"`
	Annotations map[string]string `json:"annotations,omitempty"`
	Cgroup      string            `json:"cgroup"`
	NoLinux     bool              `json:"nolinux,omitempty"`
}

type c10Ctr struct {
	ID          string            `json:"id"`
	Pod         int               `json:"pod"`
	Name        string            `json:"name"`
	State       int               `json:"state"`
	Labels      map[string]string `json:"labels,omitempty"`
	Annotations map[string]string `json:"annotations,omitempty"`
	Args        []string          `json:"args,omitempty"`
	Env         []string          `json:"env,omitempty"`
	Mounts      int               `json:"mounts,omitempty"`
	Devices     int               `json:"devices,omitempty"`
	NoLinux     bool              `json:"nolinux,omitempty"`
	NoRes       bool              `json:"nores,omitempty"`
	Shares      uint64            `json:"shares,omitempty"`
	Quota       int64             `json:"quota,omitempty"`
	Period      uint64            `json:"period,omitempty"`
	Cpus        string            `json:"cpus,omitempty"`
	Mems        string            `json:"mems,omitempty"`
	MemLimit    int64             `json:"memlimit,omitempty"`
	Swap        int64             `json:"swap,omitempty"`
	Hugepages   int               `json:"hugepages,omitempty"`
	Unified     map[string]string `json:"unified,omitempty"`
	OomAdj      int               `json:"oomadj,omitempty"`
}

type c10Mut struct {
	Kind string `json:"kind"`
	Ctr  int    `json:"ctr"`
	Key  string `json:"key,omitempty"`
	Val  string `json:"val,omitempty"`
	Num  int64  `json:"num,omitempty"`
}

type c10Entry struct {
	Key  string `json:"key"`
	Type string `json:"type"`
	Val  string `json:"val"`
}

type c10Case struct {
	Pods    []c10Pod   `json:"pods"`
	Ctrs    []c10Ctr   `json:"ctrs"`
	Muts    []c10Mut   `json:"muts"`
	Entries []c10Entry `json:"entries"`
	Policy  string     `json:"policy"`
}

type c10Cacheable struct {
	A int               `json:"a"`
	B map[string]string `json:"b"`
}

func (c *c10Cacheable) Set(v interface{}) {
	switch x := v.(type) {
	case c10Cacheable:
		*c = x
	case *c10Cacheable:
		*c = *x
	}
}
func (c *c10Cacheable) Get() interface{} { return *c }

func genStrMap(t *rapid.T, label string, keys []string) map[string]string {
	m := map[string]string{}
	n := rapid.IntRange(0, 3).Draw(t, label+"N")
	for i := 0; i < n; i++ {
		m[rapid.SampledFrom(keys).Draw(t, label+"K")] = rapid.SampledFrom([]string{"", "a", "true", "x y", "ümlaut", "{\"j\":1}", "a,b"}).Draw(t, label+"V")
	}
	return m
}

func c10Gen(t *rapid.T) *c10Case {
	c := &c10Case{Policy: rapid.SampledFrom([]string{"", "topology-aware", "balloons"}).Draw(t, "policy")}
	np := rapid.IntRange(0, 4).Draw(t, "npods")
	annKeys := []string{"affinity." + "resource-policy.nri.io", "anti-affinity.resource-policy.nri.io", "cpu.preserve.resource-policy.nri.io",
		"memory-type.resource-policy.nri.io/pod", "prefer-shared-cpus.resource-policy.nri.io/container.c0", "topologyhints.resource-policy.nri.io", "other/key"}
	for i := 0; i < np; i++ {
		p := c10Pod{ID: fmt.Sprintf("pod%d", i), Name: fmt.Sprintf("name%d", i), UID: fmt.Sprintf("uid-%d", i),
			Namespace: rapid.SampledFrom([]string{"default", "kube-system", ""}).Draw(t, "ns"),
			Labels:    genStrMap(t, "plabel", []string{"app", "tier", "io.kubernetes.pod.name"}),
			Cgroup:    rapid.SampledFrom([]string{"/kubepods/pod1", "/kubepods/burstable/pod2", "/kubepods/besteffort/pod3", ""}).Draw(t, "cgroup"),
			NoLinux:   rapid.IntRange(0, 5).Draw(t, "podNoLinux") == 0,
		}
		p.Annotations = genStrMap(t, "pann", annKeys)
		if rapid.IntRange(0, 3).Draw(t, "affinity") == 0 {
			p.Annotations["resource-policy.nri.io/affinity"] = rapid.SampledFrom([]string{
				"c0: [ c1 ]", "c0:\n- scope:\n    key: pod/name\n    operator: Matches\n    values: [ \"*\" ]\n  match:\n    key: name\n    operator: In\n    values: [ c1, c2 ]\n  weight: 5000\n",
				"not yaml: [", "c1: [ c0, sidecar ]"}).Draw(t, "affinityVal")
		}
		c.Pods = append(c.Pods, p)
	}
	if np > 0 {
		nc := rapid.IntRange(0, 6).Draw(t, "nctrs")
		for i := 0; i < nc; i++ {
			x := c10Ctr{ID: fmt.Sprintf("ctr%d", i), Pod: rapid.IntRange(0, np-1).Draw(t, "pod"),
				Name:        rapid.SampledFrom([]string{"c0", "c1", "c2", "sidecar"}).Draw(t, "cname"),
				State:       rapid.IntRange(0, 4).Draw(t, "state"),
				Labels:      genStrMap(t, "clabel", []string{"io.kubernetes.container.name", "resource-policy.nri.io/x", "l"}),
				Annotations: genStrMap(t, "cann", []string{"resource-policy.nri.io/y", "a"}),
				Mounts:      rapid.IntRange(0, 2).Draw(t, "mounts"),
				Devices:     rapid.IntRange(0, 2).Draw(t, "devices"),
				NoLinux:     rapid.IntRange(0, 6).Draw(t, "noLinux") == 0,
				NoRes:       rapid.IntRange(0, 6).Draw(t, "noRes") == 0,
				Shares:      uint64(rapid.SampledFrom([]int{0, 2, 102, 1024, 2048, 262144}).Draw(t, "shares")),
				Quota:       int64(rapid.SampledFrom([]int{0, -1, 1000, 100000, 250000}).Draw(t, "quota")),
				Period:      uint64(rapid.SampledFrom([]int{0, 100000}).Draw(t, "period")),
				Cpus:        rapid.SampledFrom([]string{"", "0", "0-3", "1,3,5-7"}).Draw(t, "cpus"),
				Mems:        rapid.SampledFrom([]string{"", "0", "0-1"}).Draw(t, "mems"),
				MemLimit:    int64(rapid.SampledFrom([]int{0, 1 << 20, 1 << 30, 123456789}).Draw(t, "memlimit")),
				Swap:        int64(rapid.SampledFrom([]int{0, 1 << 21}).Draw(t, "swap")),
				Hugepages:   rapid.IntRange(0, 2).Draw(t, "hugepages"),
				Unified:     genStrMap(t, "unified", []string{"memory.high", "memory.swap.max"}),
				OomAdj:      rapid.SampledFrom([]int{0, -997, 1000, 3, 500, 999}).Draw(t, "oom"),
			}
			if rapid.Bool().Draw(t, "args") {
				x.Args = []string{"/bin/sh", "-c", "sleep inf"}
			}
			if rapid.Bool().Draw(t, "env") {
				x.Env = []string{"A=1", "B=", "C=x=y"}
			}
			c.Ctrs = append(c.Ctrs, x)
		}
	}
	if len(c.Ctrs) > 0 {
		nm := rapid.IntRange(0, 8).Draw(t, "nmuts")
		for i := 0; i < nm; i++ {
			m := c10Mut{Kind: rapid.SampledFrom([]string{"shares", "quota", "period", "cpus", "mems", "limit", "swap", "tag", "deltag", "state", "update", "rdt", "blockio"}).Draw(t, "mut"),
				Ctr: rapid.IntRange(0, len(c.Ctrs)-1).Draw(t, "mctr"),
				Key: rapid.SampledFrom([]string{"t1", "t2"}).Draw(t, "mkey"),
				Val: rapid.SampledFrom([]string{"0-1", "2", "gold", ""}).Draw(t, "mval"),
				Num: int64(rapid.SampledFrom([]int{0, 2, 512, 100000, 1 << 28}).Draw(t, "mnum"))}
			c.Muts = append(c.Muts, m)
		}
	}
	ne := rapid.IntRange(0, 5).Draw(t, "nentries")
	for i := 0; i < ne; i++ {
		e := c10Entry{Key: fmt.Sprintf("k%d", rapid.IntRange(0, 3).Draw(t, "ekey")),
			Type: rapid.SampledFrom([]string{"string", "bool", "int", "int64", "uint64", "cpuset", "cpusetmap", "strmap", "cacheable"}).Draw(t, "etype"),
			Val:  rapid.SampledFrom([]string{"", "0-3", "1,5", "x", "7"}).Draw(t, "eval")}
		c.Entries = append(c.Entries, e)
	}
	return c
}

// ---------------------------------------------------------------------------
// building a cache from the description, through the public API
// ---------------------------------------------------------------------------

func (p *c10Pod) nri() *nri.PodSandbox {
	pod := &nri.PodSandbox{Id: p.ID, Name: p.Name, Uid: p.UID, Namespace: p.Namespace, Labels: p.Labels, Annotations: p.Annotations}
	if !p.NoLinux {
		pod.Linux = &nri.LinuxPodSandbox{CgroupParent: p.Cgroup}
	}
	return pod
}

func (x *c10Ctr) nri(c *c10Case) *nri.Container {
	ctr := &nri.Container{Id: x.ID, PodSandboxId: c.Pods[x.Pod].ID, Name: x.Name, State: nri.ContainerState(x.State),
		Labels: x.Labels, Annotations: x.Annotations, Args: x.Args, Env: x.Env}
	for i := 0; i < x.Mounts; i++ {
		ctr.Mounts = append(ctr.Mounts, &nri.Mount{Destination: fmt.Sprintf("/mnt/%d", i), Source: fmt.Sprintf("/nonexistent/src%d", i), Type: "bind", Options: []string{"ro", "rbind"}[:i+1]})
	}
	if x.NoLinux {
		return ctr
	}
	ctr.Linux = &nri.LinuxContainer{OomScoreAdj: nri.Int(x.OomAdj)}
	for i := 0; i < x.Devices; i++ {
		ctr.Linux.Devices = append(ctr.Linux.Devices, &nri.LinuxDevice{Path: fmt.Sprintf("/dev/nonexistent%d", i), Type: "c", Major: 250, Minor: int64(i)})
	}
	if x.NoRes {
		return ctr
	}
	r := &nri.LinuxResources{Cpu: &nri.LinuxCPU{Cpus: x.Cpus, Mems: x.Mems}, Memory: &nri.LinuxMemory{}, Unified: x.Unified}
	if x.Shares != 0 {
		r.Cpu.Shares = nri.UInt64(x.Shares)
	}
	if x.Quota != 0 {
		r.Cpu.Quota = nri.Int64(x.Quota)
	}
	if x.Period != 0 {
		r.Cpu.Period = nri.UInt64(x.Period)
	}
	if x.MemLimit != 0 {
		r.Memory.Limit = nri.Int64(x.MemLimit)
	}
	if x.Swap != 0 {
		r.Memory.Swap = nri.Int64(x.Swap)
	}
	for i := 0; i < x.Hugepages; i++ {
		r.HugepageLimits = append(r.HugepageLimits, &nri.HugepageLimit{PageSize: []string{"2MB", "1GB"}[i], Limit: uint64(1+i) << 21})
	}
	ctr.Linux.Resources = r
	return ctr
}

func c10Entry2Val(e c10Entry) interface{} {
	switch e.Type {
	case "string":
		return e.Val
	case "bool":
		return e.Val != ""
	case "int":
		return len(e.Val)
	case "int64":
		return int64(len(e.Val)) << 40
	case "uint64":
		return uint64(len(e.Val)) << 50
	case "cpuset":
		cs, _ := cpuset.Parse(map[string]string{"x": "", "7": "7"}[e.Val] + map[bool]string{true: e.Val}[e.Val != "x" && e.Val != "7"])
		return cs
	case "cpusetmap":
		cs, _ := cpuset.Parse("0-2")
		return map[string]cpuset.CPUSet{"a": cs, e.Val: cpuset.New()}
	case "strmap":
		return map[string]string{"v": e.Val}
	default:
		return Cacheable(&c10Cacheable{A: len(e.Val), B: map[string]string{"v": e.Val}})
	}
}

func c10Build(dir string, c *c10Case) (Cache, error) {
	cch, err := NewCache(Options{CacheDir: dir})
	if err != nil {
		return nil, err
	}
	if c.Policy != "" {
		_ = cch.SetActivePolicy(c.Policy)
	}
	for i := range c.Pods {
		cch.InsertPod(c.Pods[i].nri(), nil)
	}
	for i := range c.Ctrs {
		if _, err := cch.InsertContainer(c.Ctrs[i].nri(c)); err != nil {
			return nil, fmt.Errorf("insert container: %v", err)
		}
	}
	c10Mutate(cch, c, c.Muts)
	for _, e := range c.Entries {
		cch.SetPolicyEntry(e.Key, c10Entry2Val(e))
	}
	return cch, nil
}

func c10Mutate(cch Cache, c *c10Case, muts []c10Mut) {
	for _, m := range muts {
		ctr, ok := cch.LookupContainer(c.Ctrs[m.Ctr].ID)
		if !ok {
			continue
		}
		switch m.Kind {
		case "shares":
			ctr.SetCPUShares(m.Num)
		case "quota":
			ctr.SetCPUQuota(m.Num)
		case "period":
			ctr.SetCPUPeriod(m.Num)
		case "cpus":
			ctr.SetCpusetCpus(m.Val)
		case "mems":
			ctr.SetCpusetMems(m.Val)
		case "limit":
			ctr.SetMemoryLimit(m.Num)
		case "swap":
			ctr.SetMemorySwap(m.Num)
		case "tag":
			ctr.SetTag(m.Key, m.Val)
		case "deltag":
			ctr.DeleteTag(m.Key)
		case "state":
			ctr.UpdateState(ContainerState(m.Num % 5))
		case "update":
			ctr.SetResourceUpdates(&nri.LinuxResources{Cpu: &nri.LinuxCPU{Shares: nri.UInt64(uint64(m.Num) + 2)}, Memory: &nri.LinuxMemory{Limit: nri.Int64(m.Num * 3)}})
		case "rdt":
			ctr.SetRDTClass(m.Val)
		case "blockio":
			ctr.SetBlockIOClass(m.Val)
		}
	}
}

// ---------------------------------------------------------------------------
// describing a cache through its public getters
// ---------------------------------------------------------------------------

func reqString(r v1.ResourceRequirements) string {
	out := []string{}
	for name, q := range r.Requests {
		out = append(out, fmt.Sprintf("req.%s=%d", name, q.MilliValue()))
	}
	for name, q := range r.Limits {
		out = append(out, fmt.Sprintf("lim.%s=%d", name, q.MilliValue()))
	}
	sort.Strings(out)
	return strings.Join(out, ",")
}

func js(v interface{}) string {
	b, err := json.Marshal(v)
	if err != nil {
		return "ERR:" + err.Error()
	}
	return string(b)
}

func c10Describe(cch Cache, c *c10Case) map[string]string {
	d := map[string]string{"policy": cch.GetActivePolicy()}
	pods := cch.GetPods()
	d["npods"] = fmt.Sprint(len(pods))
	for _, p := range pods {
		k := "pod:" + p.GetID() + ":"
		d[k+"identity"] = fmt.Sprintf("%s|%s|%s|%s|%s|%s", p.GetUID(), p.GetName(), p.GetNamespace(), p.GetQOSClass(), p.GetCgroupParent(), p.PrettyName())
		for _, lk := range []string{"app", "tier", "io.kubernetes.pod.name"} {
			v, ok := p.GetLabel(lk)
			d[k+"label:"+lk] = fmt.Sprint(v, ok)
		}
		for _, ak := range []string{"affinity.resource-policy.nri.io", "anti-affinity.resource-policy.nri.io", "cpu.preserve.resource-policy.nri.io",
			"memory-type.resource-policy.nri.io/pod", "prefer-shared-cpus.resource-policy.nri.io/container.c0", "topologyhints.resource-policy.nri.io", "other/key", "resource-policy.nri.io/affinity"} {
			v, ok := p.GetAnnotation(ak)
			d[k+"ann:"+ak] = fmt.Sprint(v, ok)
		}
		for _, cn := range []string{"c0", "c1", "c2", "sidecar"} {
			aff, err := p.GetContainerAffinity(cn)
			d[k+"affinity:"+cn] = affString(aff) + fmt.Sprint(err != nil)
			v, ok := p.GetEffectiveAnnotation("memory-type.resource-policy.nri.io", cn)
			d[k+"eff:"+cn] = fmt.Sprint(v, ok)
		}
		ids := []string{}
		for _, ct := range p.GetContainers() {
			ids = append(ids, ct.GetID())
		}
		sort.Strings(ids)
		d[k+"containers"] = fmt.Sprint(ids)
	}
	ctrs := cch.GetContainers()
	d["nctrs"] = fmt.Sprint(len(ctrs))
	for _, ct := range ctrs {
		k := "ctr:" + ct.GetID() + ":"
		d[k+"identity"] = fmt.Sprintf("%s|%s|%s|%v|%s|%s", ct.GetPodID(), ct.GetName(), ct.GetNamespace(), ct.GetState(), ct.GetQOSClass(), ct.PrettyName())
		d[k+"args"] = js(ct.GetArgs())
		for _, lk := range []string{"io.kubernetes.container.name", "resource-policy.nri.io/x", "l"} {
			v, ok := ct.GetLabel(lk)
			d[k+"label:"+lk] = fmt.Sprint(v, ok)
		}
		for _, ak := range []string{"resource-policy.nri.io/y", "a"} {
			v, ok := ct.GetAnnotation(ak, nil)
			d[k+"ann:"+ak] = fmt.Sprint(v, ok)
		}
		for _, ek := range []string{"A", "B", "C", "D"} {
			v, ok := ct.GetEnv(ek)
			d[k+"env:"+ek] = fmt.Sprint(v, ok)
		}
		d[k+"mounts"] = js(ct.GetMounts())
		d[k+"devices"] = js(ct.GetDevices())
		d[k+"requirements"] = reqString(ct.GetResourceRequirements())
		upd, ok := ct.GetResourceUpdates()
		d[k+"updates"] = reqString(upd) + fmt.Sprint(ok)
		d[k+"hints"] = js(ct.GetTopologyHints())
		d[k+"assigned"] = fmt.Sprintf("shares=%d quota=%d period=%d cpus=%q mems=%q limit=%d swap=%d", ct.GetCPUShares(), ct.GetCPUQuota(), ct.GetCPUPeriod(),
			ct.GetCpusetCpus(), ct.GetCpusetMems(), ct.GetMemoryLimit(), ct.GetMemorySwap())
		for _, tk := range []string{"t1", "t2"} {
			v, ok := ct.GetTag(tk)
			d[k+"tag:"+tk] = fmt.Sprint(v, ok)
		}
		d[k+"classes"] = ct.GetRDTClass() + "|" + ct.GetBlockIOClass()
		aff, err := ct.GetAffinity()
		d[k+"affinity"] = affString(aff) + fmt.Sprint(err != nil)
		d[k+"preserve"] = fmt.Sprint(ct.PreserveCpuResources(), ct.PreserveMemoryResources())
		mt, err := ct.MemoryTypes()
		d[k+"memtypes"] = fmt.Sprint(mt, err != nil)
	}
	seen := map[string]bool{}
	for i := len(c.Entries) - 1; i >= 0; i-- { // the last value set for a key wins
		e := c.Entries[i]
		if seen[e.Key] {
			continue
		}
		seen[e.Key] = true
		var got string
		switch e.Type {
		case "string":
			var v string
			ok := cch.GetPolicyEntry(e.Key, &v)
			got = fmt.Sprint(v, ok)
		case "bool":
			var v bool
			ok := cch.GetPolicyEntry(e.Key, &v)
			got = fmt.Sprint(v, ok)
		case "int":
			var v int
			ok := cch.GetPolicyEntry(e.Key, &v)
			got = fmt.Sprint(v, ok)
		case "int64":
			var v int64
			ok := cch.GetPolicyEntry(e.Key, &v)
			got = fmt.Sprint(v, ok)
		case "uint64":
			var v uint64
			ok := cch.GetPolicyEntry(e.Key, &v)
			got = fmt.Sprint(v, ok)
		case "cpuset":
			var v cpuset.CPUSet
			ok := cch.GetPolicyEntry(e.Key, &v)
			got = fmt.Sprint(v.String(), ok)
		case "cpusetmap":
			v := map[string]cpuset.CPUSet{}
			ok := cch.GetPolicyEntry(e.Key, &v)
			keys := []string{}
			for mk, mv := range v {
				keys = append(keys, mk+"="+mv.String())
			}
			sort.Strings(keys)
			got = fmt.Sprint(keys, ok)
		case "strmap":
			v := map[string]string{}
			ok := cch.GetPolicyEntry(e.Key, &v)
			got = fmt.Sprint(js(v), ok)
		default:
			v := &c10Cacheable{}
			ok := cch.GetPolicyEntry(e.Key, v)
			got = fmt.Sprint(js(v), ok)
		}
		d["entry:"+e.Key] = got
	}
	return d
}

func c10Diff(a, b map[string]string) []string {
	keys := map[string]bool{}
	for k := range a {
		keys[k] = true
	}
	for k := range b {
		keys[k] = true
	}
	out := []string{}
	for k := range keys {
		if a[k] != b[k] {
			out = append(out, fmt.Sprintf("%s: saved %q, reloaded %q", k, a[k], b[k]))
		}
	}
	sort.Strings(out)
	return out
}

func c10Dir() string {
	base := os.Getenv("VERIF_SCRATCH")
	if base == "" {
		base = os.TempDir()
	}
	d, err := os.MkdirTemp(base, "c10-")
	if err != nil {
		panic(err)
	}
	_ = os.Chmod(d, 0o700)
	return d
}

func c10v(clause, sig, f string, args ...any) *vfkit.Violation {
	return &vfkit.Violation{Property: c10, Clause: clause, Signature: sig, Detail: fmt.Sprintf(f, args...)}
}

// ---------------------------------------------------------------------------
// experiment 1: round trip
// ---------------------------------------------------------------------------

func c10RoundTrip(c *c10Case) *vfkit.Violation {
	dir := c10Dir()
	defer os.RemoveAll(dir)
	cch, err := c10Build(dir, c)
	if err != nil {
		return nil // (pods/containers the cache refuses are not reachable cache content)
	}
	if err := cch.Save(); err != nil {
		return c10v("save succeeds", "save-failed", "%v", err)
	}
	before := c10Describe(cch, c)
	re, err := NewCache(Options{CacheDir: dir})
	if err != nil {
		return c10v("a saved cache loads", "reload-failed", "%v", err)
	}
	after := c10Describe(re, c)
	if d := c10Diff(before, after); len(d) > 0 {
		field := strings.SplitN(d[0], ": saved", 2)[0]
		parts := strings.Split(field, ":")
		sig := "roundtrip-differs:" + parts[0] + ":" + parts[len(parts)-1]
		if parts[0] == "ctr" || parts[0] == "pod" {
			sig = "roundtrip-differs:" + parts[0] + ":" + parts[2]
		}
		return c10v("the reloaded cache is equivalent to the cache at its last save", sig, "%v", d)
	}
	return nil
}

func TestVerifC10RoundTrip(t *testing.T) {
	defer vfkit.Flush()
	st := vfkit.For(c10)
	unit := "roundtrip"
	rapid.Check(t, func(t *rapid.T) {
		c := c10Gen(t)
		nt := len(c.Ctrs) > 0 && (len(c.Muts) > 0 || len(c.Entries) > 0)
		labels := []string{}
		for _, e := range c.Entries {
			labels = append(labels, "entry:"+e.Type)
		}
		st.Case(unit, nt, vfkit.Hash(c), labels...)
		if nt && st.WantSample() && len(c.Ctrs) <= 2 {
			st.Sample(c)
		}
		if v := c10RoundTrip(c); v != nil {
			st.Report(t, unit, v, c)
		}
	})
}

// ---------------------------------------------------------------------------
// experiment 2: crash / write-failure atomicity of Save (fault injection)
// ---------------------------------------------------------------------------

type c10Fault struct {
	Syscall string `json:"syscall"` // openat | write | close | renameat | newfstatat | fsize
	Action  string `json:"action"`  // kill | ENOSPC | EIO | EACCES
	When    int    `json:"when"`
	FSize   int64  `json:"fsize,omitempty"`
}

type c10CrashCase struct {
	Base   *c10Case `json:"base"`
	Change []c10Mut `json:"change"`
	NewPod bool     `json:"newpod"`
	Shrink bool     `json:"shrink"` // the save after the restart is of a smaller cache
	Fault  c10Fault `json:"fault"`
}

// helper process: load, change, save
func TestVerifC10Helper(t *testing.T) {
	dir := os.Getenv("VERIF_C10_HELPER_DIR")
	if dir == "" {
		t.Skip("helper only")
	}
	cc := &c10CrashCase{}
	if err := json.Unmarshal([]byte(os.Getenv("VERIF_C10_HELPER_CASE")), cc); err != nil {
		os.Exit(3)
	}
	if cc.Fault.Syscall == "fsize" {
		_ = syscall.Setrlimit(syscall.RLIMIT_FSIZE, &syscall.Rlimit{Cur: uint64(cc.Fault.FSize), Max: uint64(cc.Fault.FSize)})
		signalIgnoreXFSZ()
	}
	cch, err := NewCache(Options{CacheDir: dir})
	if err != nil {
		os.Exit(4)
	}
	c10ApplyChange(cch, cc)
	if err := cch.Save(); err != nil {
		// the fault hit this save only: the next request saves again
		if err := cch.Save(); err != nil {
			os.Exit(5)
		}
		os.Exit(6) // the last save succeeded: the directory must hold the new snapshot
	}
	os.Exit(0)
}

func c10ApplyChange(cch Cache, cc *c10CrashCase) {
	c10Mutate(cch, cc.Base, cc.Change)
	if cc.NewPod {
		cch.(*cache).Pods["newpod"] = cch.(*cache).createPod(&nri.PodSandbox{Id: "newpod", Name: "newpod", Namespace: "default",
			Annotations: map[string]string{"pad": strings.Repeat("x", 5000)}}, nil)
	}
	cch.SetPolicyEntry("crash-marker", "after")
}

func copyFile(src, dst string) error {
	b, err := os.ReadFile(src)
	if err != nil {
		return err
	}
	return os.WriteFile(dst, b, 0o644)
}

func c10Crash(cc *c10CrashCase, selfExe string) (v *vfkit.Violation, interesting bool) {
	dir := c10Dir()
	defer os.RemoveAll(dir)
	// previous snapshot S0
	cch, err := c10Build(dir, cc.Base)
	if err != nil {
		return nil, false
	}
	if err := cch.Save(); err != nil {
		return nil, false
	}
	descCase := *cc.Base
	descCase.Entries = append(append([]c10Entry{}, cc.Base.Entries...), c10Entry{Key: "crash-marker", Type: "string"})
	s0 := c10Describe(cch, &descCase)
	// new snapshot S1, computed in-process on a copy
	dir1 := c10Dir()
	defer os.RemoveAll(dir1)
	_ = copyFile(filepath.Join(dir, "cache"), filepath.Join(dir1, "cache"))
	c1, err := NewCache(Options{CacheDir: dir1})
	if err != nil {
		return c10v("a saved cache loads", "reload-failed", "%v", err), false
	}
	c10ApplyChange(c1, cc)
	s1 := c10Describe(c1, &descCase)
	// S0 as seen after a reload (what "previous snapshot" means for a reader)
	r0, _ := NewCache(Options{CacheDir: dir})
	s0 = c10Describe(r0, &descCase)

	caseJSON, _ := json.Marshal(cc)
	args := []string{}
	f := cc.Fault
	if f.Syscall != "fsize" {
		inj := fmt.Sprintf("inject=%s:", f.Syscall)
		if f.Action == "kill" {
			inj += "signal=SIGKILL"
		} else {
			inj += "error=" + f.Action
		}
		inj += fmt.Sprintf(":when=%d", f.When)
		args = []string{"-f", "-qq", "-o", "/dev/null", "-P", filepath.Join(dir, "cache"), "-P", filepath.Join(dir, "cache.saving"), "-e", "trace=" + f.Syscall, "-e", inj}
	}
	var cmd *exec.Cmd
	if len(args) > 0 {
		cmd = exec.Command("strace", append(args, selfExe, "-test.run", "^TestVerifC10Helper$")...)
	} else {
		cmd = exec.Command(selfExe, "-test.run", "^TestVerifC10Helper$")
	}
	cmd.Env = append(os.Environ(), "VERIF_C10_HELPER_DIR="+dir, "VERIF_C10_HELPER_CASE="+string(caseJSON), "VERIF_STATS=")
	out, _ := cmd.CombinedOutput()
	exit := cmd.ProcessState.ExitCode()
	_ = out
	// whatever happened: the directory must load, and hold S0 or S1
	re, err := NewCache(Options{CacheDir: dir})
	if err != nil {
		return c10v("after an interrupted or failed save the cache still loads", "cache-unloadable-after-fault:"+f.Syscall+":"+f.Action,
			"fault %+v (helper exit %d): %v", f, exit, err), true
	}
	got := c10Describe(re, &descCase)
	d0, d1 := c10Diff(s0, got), c10Diff(s1, got)
	if (exit == 6 || exit == 0) && len(d1) > 0 {
		return c10v("the reloaded cache equals the cache at its last successful save", "last-successful-save-not-on-disk:"+f.Syscall+":"+f.Action,
			"fault %+v: the helper's last Save() returned nil (exit %d), but the reloaded cache differs from what it saved: %v", f, exit, d1), true
	}
	if len(d0) > 0 && len(d1) > 0 {
		return c10v("after an interrupted or failed save the file is the previous or the new snapshot", "neither-old-nor-new-snapshot:"+f.Syscall+":"+f.Action,
			"fault %+v (helper exit %d): vs previous %v; vs new %v", f, exit, d0, d1), true
	}
	// the service restarts on what the fault left behind (possibly a partial
	// temporary file) and goes on: its next save, typically of a smaller
	// cache, must again be a complete snapshot that loads to what was saved
	if cc.Shrink {
		for _, p := range cc.Base.Pods {
			for _, x := range re.GetContainers() {
				if x.GetPodID() == p.ID {
					re.DeleteContainer(x.GetID())
				}
			}
			re.DeletePod(p.ID)
		}
		re.DeletePod("newpod")
	}
	re.SetPolicyEntry("crash-marker", "recovered")
	want := c10Describe(re, &descCase)
	if err := re.Save(); err != nil {
		return c10v("a save after an interrupted or failed save succeeds", "save-after-fault-failed:"+f.Syscall+":"+f.Action, "fault %+v (helper exit %d): %v", f, exit, err), true
	}
	re2, err := NewCache(Options{CacheDir: dir})
	if err != nil {
		return c10v("the save following an interrupted or failed save is a complete snapshot", "cache-unloadable-after-recovery-save:"+f.Syscall+":"+f.Action,
			"fault %+v (helper exit %d), shrink=%v: %v", f, exit, cc.Shrink, err), true
	}
	if d := c10Diff(want, c10Describe(re2, &descCase)); len(d) > 0 {
		return c10v("the save following an interrupted or failed save is a complete snapshot", "recovery-save-not-round-trip:"+f.Syscall+":"+f.Action,
			"fault %+v (helper exit %d), shrink=%v: %v", f, exit, cc.Shrink, d), true
	}
	// interesting: the fault hit inside the save (helper did not finish cleanly) and snapshots differ
	return nil, exit != 0 && len(c10Diff(s0, s1)) > 0
}

func TestVerifC10Crash(t *testing.T) {
	defer vfkit.Flush()
	st := vfkit.For(c10)
	unit := "crash"
	self, _ := os.Executable()
	if _, err := exec.LookPath("strace"); err != nil {
		t.Skip("strace not available")
	}
	rapid.Check(t, func(t *rapid.T) {
		base := c10Gen(t)
		cc := &c10CrashCase{Base: base, NewPod: rapid.Bool().Draw(t, "newpod"), Shrink: rapid.IntRange(0, 2).Draw(t, "shrink") != 0}
		if len(base.Ctrs) > 0 {
			cc.Change = []c10Mut{{Kind: "tag", Ctr: 0, Key: "t1", Val: "crash"}, {Kind: "shares", Ctr: 0, Num: 4096}}
		}
		sc := rapid.SampledFrom([]string{"openat", "write", "write", "close", "renameat", "renameat", "newfstatat", "fsize"}).Draw(t, "syscall")
		f := c10Fault{Syscall: sc, Action: "kill", When: rapid.IntRange(1, 4).Draw(t, "when")}
		switch sc {
		case "write":
			f.Action = rapid.SampledFrom([]string{"kill", "ENOSPC", "EIO"}).Draw(t, "waction")
		case "openat":
			f.Action = rapid.SampledFrom([]string{"kill", "EACCES", "ENOSPC"}).Draw(t, "oaction")
		case "renameat":
			f.Action = rapid.SampledFrom([]string{"kill", "kill", "EIO"}).Draw(t, "raction")
		case "fsize":
			f.FSize = int64(rapid.IntRange(0, 3000).Draw(t, "fsize"))
		}
		cc.Fault = f
		v, interesting := c10Crash(cc, self)
		st.Case(unit, interesting, vfkit.Hash(cc), "fault:"+f.Syscall+":"+f.Action)
		if interesting && st.WantSample() {
			st.Sample(map[string]any{"fault": f, "pods": len(base.Pods), "containers": len(base.Ctrs), "newpod": cc.NewPod})
		}
		if v != nil {
			st.Report(t, unit, v, cc)
		}
	})
}

// ---------------------------------------------------------------------------
// experiment 3: refusal of unsafe files and directories
// ---------------------------------------------------------------------------

type c10Node struct {
	Kind string `json:"kind"` // absent | file | dir | symfile | symdir | fifo
	Mode uint32 `json:"mode"`
}

type c10RefusalCase struct {
	StateDir   c10Node `json:"statedir"`
	CacheFile  c10Node `json:"cachefile"`
	Containers c10Node `json:"containers"`
}

func c10Make(path string, n c10Node, wantDir bool) {
	switch n.Kind {
	case "file":
		_ = os.WriteFile(path, nil, 0o600)
		_ = os.Chmod(path, os.FileMode(n.Mode))
	case "dir":
		_ = os.Mkdir(path, 0o700)
		_ = os.Chmod(path, os.FileMode(n.Mode))
	case "symfile":
		tgt := path + ".target"
		_ = os.WriteFile(tgt, nil, 0o600)
		_ = os.Symlink(tgt, path)
	case "symdir":
		tgt := path + ".target"
		_ = os.Mkdir(tgt, 0o700)
		_ = os.Symlink(tgt, path)
	case "fifo":
		_ = syscall.Mkfifo(path, 0o600)
		_ = os.Chmod(path, os.FileMode(n.Mode))
	}
}

func c10Bad(n c10Node, wantDir bool) bool {
	switch n.Kind {
	case "absent":
		return false
	case "symfile", "symdir":
		return true
	case "file":
		return wantDir || n.Mode&0o022 != 0
	case "dir":
		return !wantDir || n.Mode&0o022 != 0
	default:
		return true
	}
}

func c10Refusal(rc *c10RefusalCase) *vfkit.Violation {
	base := c10Dir()
	defer func() {
		_ = filepath.Walk(base, func(p string, info os.FileInfo, err error) error {
			if err == nil && info.IsDir() {
				_ = os.Chmod(p, 0o700)
			}
			return nil
		})
		_ = os.RemoveAll(base)
	}()
	state := filepath.Join(base, "state")
	c10Make(state, rc.StateDir, true)
	inside := rc.StateDir.Kind == "dir" || rc.StateDir.Kind == "symdir"
	if inside {
		c10Make(filepath.Join(state, "cache"), rc.CacheFile, false)
		c10Make(filepath.Join(state, "containers"), rc.Containers, true)
	}
	want := c10Bad(rc.StateDir, true)
	if inside {
		want = want || c10Bad(rc.CacheFile, false) || c10Bad(rc.Containers, true)
	}
	_, err := NewCache(Options{CacheDir: state})
	if (err != nil) != want {
		sig := "unsafe-entry-accepted"
		if err != nil {
			sig = "safe-entries-refused"
		}
		return c10v("a cache file or directory that is a symlink, of the wrong type or writable by group/others is refused, anything else is used", sig,
			"%+v: expected refusal=%v, NewCache error: %v", *rc, want, err)
	}
	return nil
}

func genNode(t *rapid.T, label string, kinds []string) c10Node {
	n := c10Node{Kind: rapid.SampledFrom(kinds).Draw(t, label+"Kind")}
	n.Mode = uint32(rapid.SampledFrom([]int{0o700, 0o710, 0o750, 0o755, 0o644, 0o600, 0o640, 0o770, 0o775, 0o777, 0o666, 0o660, 0o702, 0o720, 0o604, 0o722}).Draw(t, label+"Mode"))
	if n.Kind == "dir" {
		n.Mode |= 0o700 // keep directories traversable for the owner
	}
	return n
}

func TestVerifC10Refusal(t *testing.T) {
	defer vfkit.Flush()
	st := vfkit.For(c10)
	unit := "refusal"
	rapid.Check(t, func(t *rapid.T) {
		rc := &c10RefusalCase{
			StateDir:   genNode(t, "state", []string{"dir", "dir", "dir", "absent", "file", "symdir", "fifo"}),
			CacheFile:  genNode(t, "cache", []string{"absent", "file", "file", "dir", "symfile", "fifo"}),
			Containers: genNode(t, "ctrs", []string{"absent", "dir", "dir", "file", "symdir", "fifo"}),
		}
		nt := rc.StateDir.Kind != "absent"
		st.Case(unit, nt, vfkit.Hash(rc), "state:"+rc.StateDir.Kind, "cache:"+rc.CacheFile.Kind, "containers:"+rc.Containers.Kind)
		if v := c10Refusal(rc); v != nil {
			st.Report(t, unit, v, rc)
		}
	})
}

func TestVerifC10Replay(t *testing.T) {
	rf, ok, err := vfkit.LoadReplay(nil)
	if !ok {
		t.Skip("no replay file")
	}
	if err != nil {
		t.Fatalf("replay: %v", err)
	}
	var v *vfkit.Violation
	switch rf.Unit {
	case "roundtrip":
		c := &c10Case{}
		_ = json.Unmarshal(rf.Case, c)
		v = c10RoundTrip(c)
	case "crash":
		cc := &c10CrashCase{}
		_ = json.Unmarshal(rf.Case, cc)
		self, _ := os.Executable()
		v, _ = c10Crash(cc, self)
	case "refusal":
		rc := &c10RefusalCase{}
		_ = json.Unmarshal(rf.Case, rc)
		v = c10Refusal(rc)
	}
	if v != nil {
		vfkit.For(c10).Report(t, rf.Unit, v, json.RawMessage(rf.Case))
	}
}

func signalIgnoreXFSZ() { signalIgnore(syscall.SIGXFSZ) }

// affString prints affinities with value lists sorted (In/NotIn value lists
// are sets; the simple notation builds them by ranging over a map).
func affString(affs []*Affinity) string {
	out := []string{}
	for _, a := range affs {
		cp := *a
		if cp.Match != nil {
			m := *cp.Match
			m.Values = append([]string{}, m.Values...)
			sort.Strings(m.Values)
			cp.Match = &m
		}
		if cp.Scope != nil {
			sc := *cp.Scope
			sc.Values = append([]string{}, sc.Values...)
			sort.Strings(sc.Values)
			cp.Scope = &sc
		}
		out = append(out, js(cp))
	}
	sort.Strings(out)
	return strings.Join(out, ";")
}

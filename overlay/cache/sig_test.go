//go:build verif

package cache

import (
	"os"
	"os/signal"
)

func signalIgnore(s os.Signal) { signal.Ignore(s) }

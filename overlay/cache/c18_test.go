//go:build verif

package cache

import (
	"fmt"
	"os"
	"sort"
	"testing"

	nri "github.com/containerd/nri/pkg/api"
	"pgregory.net/rapid"

	"github.com/containers/nri-plugins/pkg/zzverif/vfkit"
)

var c18Names = []string{"c", "cc", "c.c", "c-c", "ac", "ca", "pod", "container.c", ""}
var c18Keys = []string{"prefer-shared-cpus.resource-policy.nri.io", "memory-type.resource-policy.nri.io", "cpu.preserve.resource-policy.nri.io", "key", "a/b"}

type c18Case struct {
	Ctr string            `json:"ctr"`
	Ann map[string]string `json:"ann"`
}

func c18Check(c *c18Case) *vfkit.Violation {
	dir := c10Dir()
	defer os.RemoveAll(dir)
	for round := 0; round < 6; round++ {
		cch, err := NewCache(Options{CacheDir: dir})
		if err != nil {
			panic(err)
		}
		keys := []string{}
		for k := range c.Ann {
			keys = append(keys, k)
		}
		sort.Strings(keys)
		if round%2 == 1 {
			for i, j := 0, len(keys)-1; i < j; i, j = i+1, j-1 {
				keys[i], keys[j] = keys[j], keys[i]
			}
		}
		ann := map[string]string{}
		for _, k := range keys {
			ann[k] = c.Ann[k]
		}
		pod := cch.InsertPod(&nri.PodSandbox{Id: "p", Name: "p", Namespace: "ns", Annotations: ann}, nil)
		ctr, err := cch.InsertContainer(&nri.Container{Id: "c", PodSandboxId: "p", Name: c.Ctr})
		if err != nil {
			panic(err)
		}
		for _, key := range c18Keys {
			// reference: key/container.C, then key/pod, then key
			want, wantOK := "", false
			for _, k := range []string{key + "/container." + c.Ctr, key + "/pod", key} {
				if v, ok := c.Ann[k]; ok {
					want, wantOK = v, true
					break
				}
			}
			g1, ok1 := pod.GetEffectiveAnnotation(key, c.Ctr)
			g2, ok2 := ctr.GetEffectiveAnnotation(key)
			if g1 != want || ok1 != wantOK || g2 != want || ok2 != wantOK {
				return &vfkit.Violation{Property: "C18", Clause: "container-specific beats pod-wide beats the bare key; other containers' annotations have no effect",
					Signature: "effective-annotation-differs:cache", Detail: fmt.Sprintf("%+v key %q: expected %q,%v; pod getter %q,%v; container getter %q,%v", *c, key, want, wantOK, g1, ok1, g2, ok2)}
			}
		}
		cch.DeleteContainer("c")
		cch.DeletePod("p")
	}
	return nil
}

func TestVerifC18Cache(t *testing.T) {
	defer vfkit.Flush()
	st := vfkit.For("C18")
	rapid.Check(t, func(t *rapid.T) {
		c := &c18Case{Ctr: rapid.SampledFrom(c18Names).Draw(t, "ctr"), Ann: map[string]string{}}
		n := rapid.IntRange(0, 6).Draw(t, "nann")
		for i := 0; i < n; i++ {
			key := rapid.SampledFrom(c18Keys).Draw(t, "key")
			val := fmt.Sprintf("v%d", i)
			switch rapid.IntRange(0, 3).Draw(t, "form") {
			case 0:
				c.Ann[key] = val
			case 1:
				c.Ann[key+"/pod"] = val
			case 2:
				c.Ann[key+"/container."+c.Ctr] = val
			default:
				c.Ann[key+"/container."+rapid.SampledFrom(c18Names).Draw(t, "other")] = val
			}
		}
		forms := map[string]int{}
		for _, key := range c18Keys {
			for _, k := range []string{key + "/container." + c.Ctr, key + "/pod", key} {
				if _, ok := c.Ann[k]; ok {
					forms[key]++
				}
			}
		}
		nt := false
		for _, n := range forms {
			if n >= 2 {
				nt = true
			}
		}
		st.Case("cache", nt, vfkit.Hash(c))
		if nt && st.WantSample() {
			st.Sample(c)
		}
		if v := c18Check(c); v != nil {
			st.Report(t, "cache", v, c)
		}
	})
}

func TestVerifC18CacheReplay(t *testing.T) {
	c := &c18Case{}
	rf, ok, err := vfkit.LoadReplay(c)
	if !ok || rf.Unit != "cache" || rf.Property != "C18" {
		t.Skip("no replay file for this unit")
	}
	if err != nil {
		t.Fatalf("replay: %v", err)
	}
	if v := c18Check(c); v != nil {
		vfkit.For("C18").Report(t, "cache", v, c)
	}
}

//go:build verif

package cache

import (
	"fmt"
	"os"
	"testing"

	nri "github.com/containerd/nri/pkg/api"
	v1 "k8s.io/api/core/v1"
	"pgregory.net/rapid"

	"github.com/containers/nri-plugins/pkg/kubernetes"
	"github.com/containers/nri-plugins/pkg/zzverif/vfkit"
)

type c20CacheCase struct {
	QoS    string `json:"qos"`
	Milli  int64  `json:"milli"`
	Limit  int64  `json:"limit"`
	MemLim int64  `json:"memlimit"`
	MemReq int64  `json:"memreq,omitempty"` // Burstable: memory request, encoded by the kubelet as OOM score adjustment
}

func c20CacheCheck(cch Cache, seq int, c *c20CacheCase) *vfkit.Violation {
	parent := map[string]string{"guaranteed": "/kubepods/podX", "burstable": "/kubepods/burstable/podX", "besteffort": "/kubepods/besteffort/podX"}[c.QoS]
	podID := fmt.Sprintf("p%d", seq)
	cch.InsertPod(&nri.PodSandbox{Id: podID, Name: podID, Namespace: "default", Linux: &nri.LinuxPodSandbox{CgroupParent: parent}}, nil)
	res := &nri.LinuxResources{Cpu: &nri.LinuxCPU{}, Memory: &nri.LinuxMemory{}}
	req, lim := c.Milli, c.Limit
	switch c.QoS {
	case "guaranteed":
		lim = req
	case "besteffort":
		req, lim = 0, 0
	}
	res.Cpu.Shares = nri.UInt64(uint64(vfkit.RefMilliCPUToShares(req)))
	if lim > 0 {
		q, p := vfkit.RefMilliCPUToQuota(lim)
		res.Cpu.Quota, res.Cpu.Period = nri.Int64(q), nri.UInt64(uint64(p))
	}
	if c.MemLim > 0 {
		res.Memory.Limit = nri.Int64(c.MemLim)
	}
	lc := &nri.LinuxContainer{Resources: res}
	adj := int64(0)
	if c.QoS == "burstable" && c.MemReq > 0 {
		adj = vfkit.RefBurstableOomAdj(c.MemReq, kubernetes.GetMemoryCapacity())
		lc.OomScoreAdj = nri.Int(int(adj))
	}
	ctr, err := cch.InsertContainer(&nri.Container{Id: fmt.Sprintf("c%d", seq), PodSandboxId: podID, Name: "c", Linux: lc})
	if err != nil {
		return nil
	}
	defer func() { cch.DeleteContainer(ctr.GetID()); cch.DeletePod(podID) }()
	rr := ctr.GetResourceRequirements()
	gotReq := int64(0)
	if q, ok := rr.Requests[v1.ResourceCPU]; ok {
		gotReq = q.MilliValue()
	}
	gotLim := int64(0)
	if q, ok := rr.Limits[v1.ResourceCPU]; ok {
		gotLim = q.MilliValue()
	}
	viol := func(clause, sig string) *vfkit.Violation {
		return &vfkit.Violation{Property: "C20", Clause: clause, Signature: sig,
			Detail: fmt.Sprintf("%+v (encoded request %d limit %d): reconstructed request %d limit %d", *c, req, lim, gotReq, gotLim)}
	}
	tol := int64(1)
	if vfkit.RefMilliCPUToShares(req) == vfkit.RefMinShares {
		tol = 2
	}
	if d := gotReq - req; d > tol || d < -tol {
		return viol("container CPU request reconstructed within tolerance", "cache-request-tolerance")
	}
	if req%125 == 0 && gotReq != req {
		return viol("container CPU request exact for multiples of 125", "cache-request-exact125")
	}
	switch c.QoS {
	case "guaranteed":
		if gotLim != gotReq {
			return viol("Guaranteed container: limit equals request", "cache-guaranteed-limit")
		}
	default:
		if lim >= 10 && gotLim != lim {
			return viol("container CPU limit exact from 10 mCPU", "cache-limit-exact")
		}
	}
	if c.MemLim > 0 {
		if q := rr.Limits[v1.ResourceMemory]; q.Value() != c.MemLim {
			return viol("memory limit carried over", "cache-memlimit")
		}
	}
	if adj != 0 {
		// a reconstructed memory request, if any, encodes to the adjustment it came from
		if q, ok := rr.Requests[v1.ResourceMemory]; ok && q.Value() > 0 {
			if back := vfkit.RefBurstableOomAdj(q.Value(), kubernetes.GetMemoryCapacity()); back != adj {
				return viol("the estimated memory request maps back to the same OOM score adjustment", "cache-memreq-roundtrip")
			}
		}
	}
	return nil
}

func TestVerifC20Cache(t *testing.T) {
	defer vfkit.Flush()
	st := vfkit.For("C20")
	dir := c10Dir()
	defer os.RemoveAll(dir)
	cch, err := NewCache(Options{CacheDir: dir})
	if err != nil {
		t.Fatalf("cache: %v", err)
	}
	seq := 0
	rapid.Check(t, func(t *rapid.T) {
		seq++
		c := &c20CacheCase{
			QoS:    rapid.SampledFrom([]string{"guaranteed", "burstable", "burstable", "besteffort"}).Draw(t, "qos"),
			Milli:  rapid.Int64Range(0, 256000).Draw(t, "milli"),
			MemLim: rapid.SampledFrom([]int64{0, 1 << 20, 1 << 30, 123456789}).Draw(t, "memlimit"),
		}
		if rapid.Bool().Draw(t, "boundary") {
			c.Milli = rapid.SampledFrom([]int64{0, 1, 2, 3, 124, 125, 126, 999, 1000, 1001, 1999, 2000, 2001, 255999, 256000}).Draw(t, "bmilli")
		}
		c.Limit = c.Milli + rapid.SampledFrom([]int64{0, 0, 1, 9, 10, 500}).Draw(t, "limitExtra")
		if c.QoS == "burstable" && rapid.Bool().Draw(t, "hasMemReq") {
			// memory requests from far below to above the limit's neighbourhood, incl. the
			// sizes at which the kubelet's adjustment saturates (capacity/1000)
			capa := kubernetes.GetMemoryCapacity()
			c.MemReq = rapid.SampledFrom([]int64{1 << 20, capa / 2000, capa / 1000, capa/1000 + 4096, capa / 100, capa / 3, 123456789}).Draw(t, "memreq")
			c.MemLim = rapid.SampledFrom([]int64{0, c.MemReq, c.MemReq + 4096, 2 * c.MemReq, capa / 1000, 1 << 20}).Draw(t, "memlimitFor")
		}
		st.Case("cache", c.QoS != "besteffort" && c.Milli > 0, vfkit.Hash(c), "qos:"+c.QoS)
		if v := c20CacheCheck(cch, seq, c); v != nil {
			st.Report(t, "cache", v, c)
		}
	})
}

func TestVerifC20CacheReplay(t *testing.T) {
	c := &c20CacheCase{}
	rf, ok, err := vfkit.LoadReplay(c)
	if !ok || rf.Unit != "cache" {
		t.Skip("no replay file for this unit")
	}
	if err != nil {
		t.Fatalf("replay: %v", err)
	}
	dir := c10Dir()
	defer os.RemoveAll(dir)
	cch, _ := NewCache(Options{CacheDir: dir})
	if v := c20CacheCheck(cch, 1, c); v != nil {
		vfkit.For("C20").Report(t, "cache", v, c)
	}
}

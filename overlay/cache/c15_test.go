//go:build verif

package cache

import (
	"fmt"
	"os"
	"runtime"
	"strings"
	"sync"
	"testing"
	"time"

	nri "github.com/containerd/nri/pkg/api"
	podresv1 "k8s.io/kubelet/pkg/apis/podresources/v1"
	"pgregory.net/rapid"

	"github.com/containers/nri-plugins/pkg/agent/podresapi"
	"github.com/containers/nri-plugins/pkg/zzverif/vfkit"
)

// C15, last sentence: a pod's resources that are being fetched asynchronously
// are observed by every later reader once the fetch has been started.

type c15Fetch struct {
	Deliver      bool  `json:"deliver"`       // the agent's query answers (else: fails, channel closed empty)
	DelayYields  int   `json:"delay_yields"`  // scheduler yields before the answer arrives
	DelayMicros  int   `json:"delay_us"`      // and/or a real delay
	ReaderYields []int `json:"reader_yields"` // one concurrent reader per entry
	CreateCtr    bool  `json:"create_ctr"`    // a CreateContainer-like insertion reads the resources, too
}

type c15FetchCase struct {
	Pods []c15Fetch `json:"pods"`
}

func c15GenFetch(t *rapid.T) *c15FetchCase {
	c := &c15FetchCase{}
	n := rapid.IntRange(1, 4).Draw(t, "npods")
	for i := 0; i < n; i++ {
		f := c15Fetch{Deliver: rapid.IntRange(0, 4).Draw(t, "deliver") != 0, DelayYields: rapid.SampledFrom([]int{0, 0, 1, 5, 50}).Draw(t, "delayYields"),
			DelayMicros: rapid.SampledFrom([]int{0, 0, 10, 200, 2000}).Draw(t, "delayMicros"), CreateCtr: rapid.Bool().Draw(t, "createCtr")}
		for j, k := 0, rapid.IntRange(1, 3).Draw(t, "nreaders"); j < k; j++ {
			f.ReaderYields = append(f.ReaderYields, rapid.SampledFrom([]int{0, 0, 1, 3, 20}).Draw(t, "readerYields"))
		}
		c.Pods = append(c.Pods, f)
	}
	return c
}

var c15FetchWatchdog = 30 * time.Second

// c15CheckFetch runs the case under a watchdog: a reader that never returns
// (it waits for the fetch while the fetch waits for it) is a deadlock.
func c15CheckFetch(c *c15FetchCase) (v *vfkit.Violation, slow int) {
	type res struct {
		v    *vfkit.Violation
		slow int
	}
	done := make(chan res, 1)
	go func() {
		v, slow := c15RunFetch(c)
		done <- res{v, slow}
	}()
	select {
	case r := <-done:
		return r.v, r.slow
	case <-time.After(c15FetchWatchdog):
		buf := make([]byte, 1<<20)
		dump := string(buf[:runtime.Stack(buf, true)])
		if strings.Contains(dump, "GetPodResources") || strings.Contains(dump, "goFetchPodResources") {
			c15FetchWatchdog = 5 * time.Second // re-executions while shrinking need not wait that long
			return &vfkit.Violation{Property: "C15", Clause: "no request deadlocks: a reader of pod resources that are being fetched returns once the fetch completes",
				Signature: "deadlock:pod-resource-fetch", Detail: "readers did not return; goroutines:\n" + dump}, 1
		}
		panic("INCONCLUSIVE: pod resource fetch case timed out without a blocked reader")
	}
}

func c15RunFetch(c *c15FetchCase) (v *vfkit.Violation, slow int) {
	dir := c10Dir()
	defer os.RemoveAll(dir)
	cch, err := NewCache(Options{CacheDir: dir})
	if err != nil {
		panic(err)
	}
	// the cache is documented as unsynchronised: every call into it is made under
	// the caller's lock (the resource manager's), only the fetch runs outside of it
	var lock sync.Mutex
	var mu sync.Mutex
	fail := func(sig, f string, a ...any) {
		mu.Lock()
		if v == nil {
			v = &vfkit.Violation{Property: "C15", Clause: "pod resources being fetched are observed by every reader that comes after the start of the fetch", Signature: sig, Detail: fmt.Sprintf(f, a...)}
		}
		mu.Unlock()
	}
	var wg sync.WaitGroup
	for i, f := range c.Pods {
		i, f := i, f
		id := fmt.Sprintf("pod%d", i)
		want := &podresapi.PodResources{PodResources: &podresv1.PodResources{Name: id, Namespace: "ns",
			Containers: []*podresv1.ContainerResources{{Name: "c0", CpuIds: []int64{int64(i)}}}}}
		ch := make(chan *podresapi.PodResources, 1)
		// the agent's query goroutine
		wg.Add(1)
		go func() {
			defer wg.Done()
			defer close(ch)
			for k := 0; k < f.DelayYields; k++ {
				runtime.Gosched()
			}
			if f.DelayMicros > 0 {
				time.Sleep(time.Duration(f.DelayMicros) * time.Microsecond)
			}
			if f.Deliver {
				ch <- want
			}
		}()
		if f.DelayYields+f.DelayMicros > 0 {
			slow++
		}
		// RunPodSandbox: the fetch is started here
		lock.Lock()
		pod := cch.InsertPod(&nri.PodSandbox{Id: id, Name: id, Namespace: "ns"}, ch)
		lock.Unlock()
		judge := func(who string, got *podresapi.PodResources) {
			switch {
			case f.Deliver && got == nil:
				fail("reader-missed-pending-fetch", "%s of %s returned no resources although the fetch had been started and delivers", who, id)
			case f.Deliver && got.GetContainer("c0") == nil:
				fail("reader-saw-other-resources", "%s of %s returned %+v", who, id, got)
			case !f.Deliver && got != nil:
				fail("reader-saw-resources-of-failed-fetch", "%s of %s returned %+v although the query failed", who, id, got)
			}
		}
		for r, y := range f.ReaderYields {
			r, y := r, y
			wg.Add(1)
			go func() {
				defer wg.Done()
				for k := 0; k < y; k++ {
					runtime.Gosched()
				}
				lock.Lock()
				got := pod.GetPodResources()
				if r%2 == 1 {
					cch.Save() // a later request saves the cache
				}
				lock.Unlock()
				judge(fmt.Sprintf("concurrent reader %d", r), got)
			}()
		}
		lock.Lock()
		if f.CreateCtr {
			// CreateContainer right after RunPodSandbox
			ctr, err := cch.InsertContainer(&nri.Container{Id: id + "-c0", PodSandboxId: id, Name: "c0"})
			if err != nil {
				panic(err)
			}
			got := ctr.GetPodResources()
			if f.Deliver && got == nil {
				fail("container-created-without-pending-pod-resources", "container c0 of %s was inserted without the pod resources that were being fetched", id)
			}
		} else {
			judge("immediate reader", pod.GetPodResources())
		}
		lock.Unlock()
	}
	wg.Wait()
	for _, rep := range vfkit.NewRaceReports() {
		sig, harness := vfkit.RaceSignature(rep)
		if harness {
			panic("harness bug: data race inside the harness:\n" + rep)
		}
		fail(sig, "the race detector reported:\n%s", rep)
	}
	return v, slow
}

func TestVerifC15Fetch(t *testing.T) {
	defer vfkit.Flush()
	st := vfkit.For("C15")
	rapid.Check(t, func(t *rapid.T) {
		c := c15GenFetch(t)
		v, slow := c15CheckFetch(c)
		labels := []string{}
		if slow > 0 {
			labels = append(labels, "answer-arrives-late")
		}
		st.Case("pod-resources", slow > 0 && len(c.Pods) >= 2, vfkit.Hash(c), labels...)
		if slow > 0 && st.WantSample() {
			st.Sample(c)
		}
		if v != nil {
			st.Report(t, "pod-resources", v, c)
		}
	})
}

func TestVerifC15FetchReplay(t *testing.T) {
	c := &c15FetchCase{}
	rf, ok, err := vfkit.LoadReplay(c)
	if !ok || rf.Unit != "pod-resources" {
		t.Skip("no replay file for this unit")
	}
	if err != nil {
		t.Fatalf("replay: %v", err)
	}
	for i := 0; i < 50; i++ {
		if v, _ := c15CheckFetch(c); v != nil {
			vfkit.For("C15").Report(t, "pod-resources", v, c)
			return
		}
	}
}

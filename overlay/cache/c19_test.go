//go:build verif

package cache

import (
	"fmt"
	"os"
	"path"
	"strings"
	"testing"

	nri "github.com/containerd/nri/pkg/api"
	"pgregory.net/rapid"

	resmgr "github.com/containers/nri-plugins/pkg/apis/resmgr/v1alpha1"
	"github.com/containers/nri-plugins/pkg/zzverif/vfkit"
)

const c19 = "C19"

type c19Subject struct {
	PodName   string            `json:"podname"`
	Namespace string            `json:"ns"`
	QoS       string            `json:"qos"`
	PodLabels map[string]string `json:"podlabels"`
	CtrName   string            `json:"ctrname"`
	CtrLabels map[string]string `json:"ctrlabels"`
	Tags      map[string]string `json:"tags"`
}

type c19Case struct {
	Subject c19Subject `json:"subject"`
	Key     string     `json:"key"`
	Op      string     `json:"op"`
	Values  []string   `json:"values"`
	Tmpl    []string   `json:"tmpl,omitempty"` // literal / ${key} segments for Expand
	Must    bool       `json:"must,omitempty"`
	Affin   string     `json:"affinity,omitempty"`
	Anti    bool       `json:"anti,omitempty"`
}

var c19LabelKeys = []string{"app", "io.kubernetes/name", "a.b/c.d", "tier"}
var c19Vals = []string{"web", "db", "x", "", "a:b", "w*b", "default", "Guaranteed", "c0"}

func c19GenSubject(t *rapid.T) c19Subject {
	s := c19Subject{
		PodName:   rapid.SampledFrom([]string{"web", "db-0", "x"}).Draw(t, "podname"),
		Namespace: rapid.SampledFrom([]string{"default", "kube-system", "prod"}).Draw(t, "ns"),
		QoS:       rapid.SampledFrom([]string{"Guaranteed", "Burstable", "BestEffort"}).Draw(t, "qos"),
		CtrName:   rapid.SampledFrom([]string{"c0", "c1", "web"}).Draw(t, "ctrname"),
		PodLabels: map[string]string{}, CtrLabels: map[string]string{}, Tags: map[string]string{},
	}
	for _, m := range []map[string]string{s.PodLabels, s.CtrLabels, s.Tags} {
		n := rapid.IntRange(0, 3).Draw(t, "nlabels")
		for i := 0; i < n; i++ {
			m[rapid.SampledFrom(c19LabelKeys).Draw(t, "lk")] = rapid.SampledFrom(c19Vals).Draw(t, "lv")
		}
	}
	return s
}

var c19SimpleKeys = []string{"name", "namespace", "qosclass", "id", "uid", "pod/name", "pod/namespace", "pod/qosclass", "pod/id", "pod/uid",
	"labels/app", "labels/io.kubernetes/name", "labels/a.b/c.d", "labels/nosuch", "tags/app", "tags/tier", "pod/labels/app", "pod/labels/a.b/c.d", "pod/labels/nosuch"}
var c19BadKeys = []string{"", "nosuchkey", "pod", "labels", "tags", "pod/pod/name", "name/extra", "pod/name/extra", "/name", "labels/", "::", ":", ":,", "pod/tags/app"}

func c19GenKey(t *rapid.T) string {
	switch rapid.IntRange(0, 9).Draw(t, "keyKind") {
	case 0:
		return rapid.SampledFrom(c19BadKeys).Draw(t, "badKey")
	case 1, 2: // joint key, default separators
		n := rapid.IntRange(2, 3).Draw(t, "njoint")
		ks := []string{}
		for i := 0; i < n; i++ {
			ks = append(ks, rapid.SampledFrom(c19SimpleKeys).Draw(t, "jk"))
		}
		return ":" + strings.Join(ks, ":")
	case 3: // joint key with explicit separators
		ksep := rapid.SampledFrom([]string{",", ";", "|", ":", "+", " "}).Draw(t, "ksep")
		vsep := rapid.SampledFrom([]string{",", "-", "_", ":", "=", "@"}).Draw(t, "vsep")
		n := rapid.IntRange(2, 3).Draw(t, "njoint")
		ks := []string{}
		for i := 0; i < n; i++ {
			ks = append(ks, rapid.SampledFrom(c19SimpleKeys).Draw(t, "jk"))
		}
		return ":" + ksep + vsep + strings.Join(ks, ksep)
	default:
		return rapid.SampledFrom(c19SimpleKeys).Draw(t, "key")
	}
}

var c19Ops = []string{"Equals", "NotEqual", "In", "NotIn", "Exists", "NotExist", "AlwaysTrue", "Matches", "MatchesNot", "MatchesAny", "MatchesNone", "Bogus"}

func c19Gen(t *rapid.T) *c19Case {
	c := &c19Case{Subject: c19GenSubject(t), Key: c19GenKey(t), Op: rapid.SampledFrom(c19Ops).Draw(t, "op")}
	nv := rapid.IntRange(0, 4).Draw(t, "nvalues")
	if rapid.IntRange(0, 4).Draw(t, "arityAsRequired") > 0 {
		switch c.Op {
		case "Equals", "NotEqual", "Matches", "MatchesNot":
			nv = 1
		case "Exists", "NotExist", "AlwaysTrue":
			nv = 0
		default:
			nv = rapid.IntRange(1, 4).Draw(t, "nvaluesSet")
		}
	}
	for i := 0; i < nv; i++ {
		c.Values = append(c.Values, rapid.SampledFrom(append(c19Vals, "w?b", "[a-z]*", "[", "web:default", "c0:web", "*")).Draw(t, "value"))
	}
	ns := rapid.IntRange(0, 4).Draw(t, "nsegs")
	for i := 0; i < ns; i++ {
		if rapid.Bool().Draw(t, "isRef") {
			c.Tmpl = append(c.Tmpl, "${"+rapid.SampledFrom(c19SimpleKeys).Draw(t, "tk")+"}")
		} else {
			c.Tmpl = append(c.Tmpl, rapid.SampledFrom([]string{"x-", "/", "lit", "-", ""}).Draw(t, "lit"))
		}
	}
	c.Must = rapid.Bool().Draw(t, "must")
	if rapid.IntRange(0, 2).Draw(t, "affinity") == 0 {
		w := rapid.SampledFrom([]string{"", "weight: 5", "weight: 1000", "weight: 1001", "weight: -1001", "weight: 2147483647", "weight: -2147483648", "weight: 0"}).Draw(t, "weight")
		c.Affin = fmt.Sprintf("%s:\n- match:\n    key: name\n    operator: In\n    values: [ c0, c1 ]\n  %s\n", c.Subject.CtrName, w)
		c.Anti = rapid.Bool().Draw(t, "anti")
	}
	return c
}

// reference resolver over the generated data (documented key set)
func (s *c19Subject) resolve(key string) (string, bool) {
	key = path.Clean(key)
	pod := false
	if rest, ok := strings.CutPrefix(key, "pod/"); ok {
		pod, key = true, rest
	}
	switch {
	case key == "name":
		if pod {
			return s.PodName, true
		}
		return s.CtrName, true
	case key == "namespace":
		return s.Namespace, true
	case key == "qosclass":
		return s.QoS, true
	case key == "id":
		if pod {
			return "podid", true
		}
		return "ctrid", true
	case key == "uid" && pod:
		return "poduid", true
	case strings.HasPrefix(key, "labels/"):
		m := s.CtrLabels
		if pod {
			m = s.PodLabels
		}
		v, ok := m[strings.TrimPrefix(key, "labels/")]
		return v, ok
	case strings.HasPrefix(key, "tags/") && !pod:
		v, ok := s.Tags[strings.TrimPrefix(key, "tags/")]
		return v, ok
	}
	return "", false
}

// reference: joint keys evaluate to their sub-key values joined by the value separator
func (s *c19Subject) keyValue(key string) (string, bool) {
	return vfkit.RefKeyValue(key, s.resolve)
}

// reference operator table, from the documentation
func (c *c19Case) refEvaluate() (bool, bool) {
	v, ok := c.Subject.keyValue(c.Key)
	return vfkit.RefOperator(c.Op, c.Values, v, ok)
}

var c19Negation = map[string]string{"In": "NotIn", "Matches": "MatchesNot", "MatchesAny": "MatchesNone", "Exists": "NotExist"}

func c19Build(dir string, c *c19Case) (Cache, Container, Pod) {
	cch, err := NewCache(Options{CacheDir: dir})
	if err != nil {
		panic(err)
	}
	parent := map[string]string{"Guaranteed": "/kubepods/podx", "Burstable": "/kubepods/burstable/podx", "BestEffort": "/kubepods/besteffort/podx"}[c.Subject.QoS]
	ann := map[string]string{}
	if c.Affin != "" {
		k := "resource-policy.nri.io/affinity"
		if c.Anti {
			k = "resource-policy.nri.io/anti-affinity"
		}
		ann[k] = c.Affin
	}
	pod := cch.InsertPod(&nri.PodSandbox{Id: "podid", Uid: "poduid", Name: c.Subject.PodName, Namespace: c.Subject.Namespace,
		Labels: c.Subject.PodLabels, Annotations: ann, Linux: &nri.LinuxPodSandbox{CgroupParent: parent}}, nil)
	ctr, err := cch.InsertContainer(&nri.Container{Id: "ctrid", PodSandboxId: "podid", Name: c.Subject.CtrName, Labels: c.Subject.CtrLabels})
	if err != nil {
		panic(err)
	}
	for k, v := range c.Subject.Tags {
		ctr.SetTag(k, v)
	}
	return cch, ctr, pod
}

var c19Info struct{ validated, affinities, clamped int }

func c19Check(c *c19Case) (v *vfkit.Violation, resolves bool) {
	c19Info.validated, c19Info.affinities, c19Info.clamped = 0, 0, 0
	dir := c10Dir()
	defer os.RemoveAll(dir)
	_, ctr, pod := c19Build(dir, c)
	mk := func(f string, a ...any) string { return fmt.Sprintf(f, a...) }
	vi := func(clause, sig, d string) *vfkit.Violation {
		return &vfkit.Violation{Property: c19, Clause: clause, Signature: sig, Detail: d}
	}
	expr := &resmgr.Expression{Key: c.Key, Op: resmgr.Operator(c.Op), Values: c.Values}
	_, resolves = c.Subject.keyValue(c.Key)
	// validated => evaluation does not fail
	verr := expr.Validate()
	var got bool
	var pan any
	func() {
		defer func() { pan = recover() }()
		got = expr.Evaluate(ctr)
	}()
	if verr == nil && pan != nil {
		return vi("an expression accepted by validation never fails at evaluation", "validated-expression-panics", mk("%+v: %v", *c, pan)), resolves
	}
	if verr != nil {
		return nil, resolves // not accepted by validation: nothing is promised
	}
	c19Info.validated = 1
	// negation pairs
	if neg, ok := c19Negation[c.Op]; ok {
		n := &resmgr.Expression{Key: c.Key, Op: resmgr.Operator(neg), Values: c.Values}
		if n.Validate() == nil && n.Evaluate(ctr) == got {
			return vi("In/NotIn, Matches/MatchesNot, MatchesAny/MatchesNone, Exists/NotExist are exact negations", "negation-pair-agrees:"+c.Op, mk("%+v: both evaluate to %v", *c, got)), resolves
		}
	}
	// key value, joint keys
	wantV, wantOK := c.Subject.keyValue(c.Key)
	gotV, gotOK := resmgr.KeyValue(c.Key, ctr)
	if gotOK != wantOK || (wantOK && gotV != wantV) {
		sig := "key-value-differs"
		if strings.HasPrefix(c.Key, ":") {
			sig = "joint-key-value-differs"
		} else if strings.Contains(c.Key, "qosclass") && strings.HasPrefix(c.Key, "pod/") {
			sig = "key-value-differs:pod/qosclass"
		}
		return vi("keys resolve to the documented metadata; joint keys evaluate to their sub-key values joined by the separator", sig,
			mk("%+v: KeyValue = %q,%v expected %q,%v", *c, gotV, gotOK, wantV, wantOK)), resolves
	}
	// operator semantics
	if want, judged := c.refEvaluate(); judged && want != got {
		return vi("operators follow their documented semantics", "operator-semantics:"+c.Op, mk("%+v: Evaluate = %v, documented %v (key value %q,%v)", *c, got, want, wantV, wantOK)), resolves
	}
	// Expand
	if len(c.Tmpl) > 0 {
		src := strings.Join(c.Tmpl, "")
		want, unresolved := "", false
		for _, seg := range c.Tmpl {
			if strings.HasPrefix(seg, "${") {
				val, ok := c.Subject.keyValue(strings.TrimSuffix(strings.TrimPrefix(seg, "${"), "}"))
				if !ok {
					unresolved = true
				}
				want += val
			} else {
				want += seg
			}
		}
		gotS, err := ctr.Expand(src, c.Must)
		if (err != nil) != (unresolved && c.Must) {
			return vi("Expand fails on unresolvable keys iff resolution is mandatory", "expand-error-rule", mk("%+v: Expand(%q, %v) err=%v, unresolved=%v", *c, src, c.Must, err, unresolved)), resolves
		}
		if err == nil && gotS != want {
			return vi("Expand substitutes key references by their values", "expand-value", mk("%+v: Expand(%q) = %q expected %q", *c, src, gotS, want)), resolves
		}
	}
	// affinity weights
	if c.Affin != "" {
		affs, err := pod.GetContainerAffinity(c.Subject.CtrName)
		if err == nil {
			for _, a := range affs {
				c19Info.affinities++
				if a.Weight == 1000 || a.Weight == -1000 {
					c19Info.clamped++
				}
				if a.Weight > 1000 || a.Weight < -1000 {
					return vi("user-supplied affinity weights are clamped to [-1000, 1000]", "affinity-weight-not-clamped", mk("%+v: weight %d", *c, a.Weight)), resolves
				}
			}
		}
	}
	return nil, resolves
}

func TestVerifC19Expressions(t *testing.T) {
	defer vfkit.Flush()
	st := vfkit.For(c19)
	rapid.Check(t, func(t *rapid.T) {
		c := c19Gen(t)
		v, resolves := c19Check(c)
		labels := []string{"op:" + c.Op}
		if strings.HasPrefix(c.Key, ":") {
			labels = append(labels, "joint-key")
		}
		if c19Info.validated > 0 {
			labels = append(labels, "accepted-by-validation")
		}
		if c19Info.affinities > 0 {
			labels = append(labels, "affinity-parsed")
		}
		if c19Info.clamped > 0 {
			labels = append(labels, "affinity-weight-at-bound")
		}
		st.Case("expressions", resolves && c19Info.validated > 0, vfkit.Hash(c), labels...)
		if resolves && st.WantSample() {
			st.Sample(map[string]any{"key": c.Key, "op": c.Op, "values": c.Values, "subject": c.Subject})
		}
		if v != nil {
			st.Report(t, "expressions", v, c)
		}
	})
}

func TestVerifC19ExpressionsReplay(t *testing.T) {
	c := &c19Case{}
	rf, ok, err := vfkit.LoadReplay(c)
	if !ok || rf.Unit != "expressions" {
		t.Skip("no replay file for this unit")
	}
	if err != nil {
		t.Fatalf("replay: %v", err)
	}
	if v, _ := c19Check(c); v != nil {
		vfkit.For(c19).Report(t, "expressions", v, c)
	}
}

// native fuzz target (thorough tier): arbitrary key / operator / value strings
func FuzzVerifC19(f *testing.F) {
	for _, k := range append(append([]string{}, c19SimpleKeys...), c19BadKeys...) {
		f.Add(k, "In", "web", "x")
	}
	f.Add(":,-name,namespace", "MatchesAny", "c0-*", "[")
	f.Fuzz(func(t *testing.T, key, op, v1, v2 string) {
		c := &c19Case{Subject: c19Subject{PodName: "web", Namespace: "default", QoS: "Burstable", CtrName: "c0",
			PodLabels: map[string]string{"app": "web", "a.b/c.d": "x"}, CtrLabels: map[string]string{"app": "db"}, Tags: map[string]string{"tier": "a:b"}},
			Key: key, Op: op, Values: []string{v1, v2}}
		if strings.Contains(key, "\x00") || strings.ContainsAny(key, "\\") {
			return
		}
		if v, _ := c19Check(c); v != nil && v.Signature != "key-value-differs" && v.Signature != "joint-key-value-differs" {
			// (the reference resolver only knows clean keys: value differences on
			// arbitrary fuzzed keys are not judged, crashes and negation pairs are)
			t.Fatalf("%s: %s", v.Error(), v.Detail)
		}
	})
}

//go:build verif

package libmem_test

import (
	"errors"
	"fmt"
	"os"
	"sort"
	"strings"
	"testing"

	"pgregory.net/rapid"

	logger "github.com/containers/nri-plugins/pkg/log"
	libmem "github.com/containers/nri-plugins/pkg/resmgr/lib/memory"
	"github.com/containers/nri-plugins/pkg/utils/cpuset"
	"github.com/containers/nri-plugins/pkg/zzverif/vfkit"
)

func init() { logger.SetLevel(logger.LevelError) }

// ---------------------------------------------------------------------------
// case description (pure data, replayable)
// ---------------------------------------------------------------------------

type lmNode struct {
	Type   int   `json:"type"` // 0 DRAM, 1 PMEM, 2 HBM
	Cap    int64 `json:"cap"`
	Normal bool  `json:"normal"`
	HasCPU bool  `json:"cpu"`
}

type lmOp struct {
	Kind   string `json:"op"` // alloc, offer, commit, realloc, release, reset
	Slot   int    `json:"slot"`
	Size   int64  `json:"size,omitempty"`
	Aff    uint64 `json:"aff,omitempty"`
	Types  int    `json:"types,omitempty"`
	Strict bool   `json:"strict,omitempty"`
	Prio   int    `json:"prio,omitempty"`
	Offer  int    `json:"offer,omitempty"` // index into outstanding offers (mod len)
}

type lmCase struct {
	Nodes  []lmNode `json:"nodes"`
	Dist   [][]int  `json:"dist"`
	Expand string   `json:"expand,omitempty"` // "", "all", "next"
	Ops    []lmOp   `json:"ops"`
}

var lmPrios = []int{int(libmem.BestEffort), int(libmem.Burstable), int(libmem.Guaranteed),
	int(libmem.Preserved), int(libmem.Reservation), 5, 2000, 20000}

func lmGenCase(t *rapid.T, weightOvercommit bool) *lmCase {
	n := rapid.IntRange(1, 8).Draw(t, "nodes")
	c := &lmCase{}
	anyNormal := false
	for i := 0; i < n; i++ {
		ty := rapid.SampledFrom([]int{0, 0, 0, 1, 2}).Draw(t, "type")
		capa := int64(rapid.SampledFrom([]int{0, 2, 4, 6, 8, 10, 10, 16, 20}).Draw(t, "cap"))
		normal := rapid.IntRange(0, 4).Draw(t, "normal") != 0
		if i == 0 { // keep machines bootable: node 0 is DRAM with normal memory
			ty, normal = 0, true
			if capa == 0 {
				capa = 10
			}
		}
		if normal && capa > 0 {
			anyNormal = true
		}
		c.Nodes = append(c.Nodes, lmNode{Type: ty, Cap: capa, Normal: normal, HasCPU: ty == 0 && rapid.Bool().Draw(t, "cpu")})
	}
	_ = anyNormal
	// distance matrix: symmetric, diagonal strictly smallest
	shape := rapid.SampledFrom([]string{"tree", "line", "ring", "flat", "random"}).Draw(t, "distShape")
	c.Dist = make([][]int, n)
	for i := range c.Dist {
		c.Dist[i] = make([]int, n)
	}
	for i := 0; i < n; i++ {
		for j := i; j < n; j++ {
			d := 10
			if i != j {
				switch shape {
				case "tree":
					switch {
					case i/2 == j/2:
						d = 11
					case i/4 == j/4:
						d = 16
					default:
						d = 21
					}
				case "line":
					d = 10 + 5*(j-i)
				case "ring":
					k := j - i
					if n-k < k {
						k = n - k
					}
					d = 10 + 5*k
				case "flat":
					d = 20
				default:
					d = 11 + rapid.IntRange(0, 5).Draw(t, "dist")
				}
			}
			c.Dist[i][j], c.Dist[j][i] = d, d
		}
	}
	c.Expand = rapid.SampledFrom([]string{"", "", "", "all", "next"}).Draw(t, "expand")

	nops := rapid.IntRange(1, 40).Draw(t, "nops")
	all := uint64(1)<<uint(n) - 1
	for i := 0; i < nops; i++ {
		kinds := []string{"alloc", "alloc", "alloc", "offer", "offer", "commit", "commit", "realloc", "release", "release", "reset"}
		if weightOvercommit {
			kinds = []string{"alloc", "alloc", "alloc", "alloc", "alloc", "offer", "commit", "realloc", "realloc", "release"}
		}
		op := lmOp{Kind: rapid.SampledFrom(kinds).Draw(t, "kind"), Slot: rapid.IntRange(0, 9).Draw(t, "slot")}
		switch op.Kind {
		case "alloc", "offer":
			op.Size = int64(rapid.SampledFrom([]int{0, 1, 2, 3, 4, 5, 6, 8, 10, 12, 25}).Draw(t, "size"))
			if rapid.IntRange(0, 2).Draw(t, "singleNodeAff") > 0 {
				op.Aff = 1 << uint(rapid.IntRange(0, n-1).Draw(t, "affNode"))
			} else {
				op.Aff = rapid.Uint64Range(0, all).Draw(t, "aff")
			}
			if rapid.IntRange(0, 30).Draw(t, "badAff") == 0 {
				op.Aff |= 1 << uint(n) // unknown node
			}
			op.Types = rapid.SampledFrom([]int{0, 0, 0, 1, 1, 2, 3, 4, 5, 7}).Draw(t, "types")
			op.Strict = rapid.IntRange(0, 3).Draw(t, "strict") == 0
			op.Prio = rapid.SampledFrom(lmPrios).Draw(t, "prio")
		case "commit":
			op.Offer = rapid.IntRange(0, 7).Draw(t, "offer")
		case "realloc":
			if rapid.Bool().Draw(t, "reallocNodes") {
				op.Aff = rapid.Uint64Range(0, all).Draw(t, "aff")
			}
			op.Types = rapid.SampledFrom([]int{0, 0, 1, 2, 3, 4, 7}).Draw(t, "types")
		}
		c.Ops = append(c.Ops, op)
	}
	return c
}

// ---------------------------------------------------------------------------
// executor with reference model
// ---------------------------------------------------------------------------

type lmReq struct {
	size     int64
	prio     int
	strict   bool
	types    int // allowed types for a strict request (requested + re-allocated)
	aff      uint64
	reqTypes int
}

type lmOffer struct {
	offer   *libmem.Offer
	op      lmOp
	takenAt int // mutation count when taken
	judged  bool
}

type lmObs struct {
	zones map[string]uint64
	list  []string
	usage []int64
	free  []int64
}

type lmExec struct {
	foreign   int // violations of the property this run does not decide
	c         *lmCase
	a, b      *libmem.Allocator // b: twin that never sees GetOffer; Commit of a fresh offer = Allocate
	b2        *libmem.Allocator // control twin of b
	nondet    bool              // b and b2 disagreed: the allocator is not deterministic on this history
	live      map[string]*lmReq
	offers    []*lmOffer
	mutations int
	unjudged  bool // a successful no-op realloc happened since; staleness of older offers not judged
	labels    map[string]bool
	nt06      bool
	nt07      bool
}

func lmNewAllocator(c *lmCase) (*libmem.Allocator, error) {
	nodes := []*libmem.Node{}
	for i, n := range c.Nodes {
		cpus := cpuset.New()
		if n.HasCPU {
			cpus = cpuset.New(i)
		}
		nd, err := libmem.NewNode(i, libmem.Type(n.Type), n.Cap, n.Normal, cpus, c.Dist[i])
		if err != nil {
			return nil, err
		}
		nodes = append(nodes, nd)
	}
	opts := []libmem.AllocatorOption{libmem.WithNodes(nodes)}
	switch c.Expand {
	case "all":
		opts = append(opts, libmem.WithCustomFunctions(&libmem.CustomFunctions{
			ExpandZone: func(zone libmem.NodeMask, types libmem.TypeMask, ca libmem.CustomAllocator) libmem.NodeMask {
				return ca.GetAllocator().Masks().NodesByTypes(types) &^ zone
			}}))
	case "next":
		opts = append(opts, libmem.WithCustomFunctions(&libmem.CustomFunctions{
			ExpandZone: func(zone libmem.NodeMask, types libmem.TypeMask, ca libmem.CustomAllocator) libmem.NodeMask {
				cand := ca.GetAllocator().Masks().NodesByTypes(types) &^ zone
				for _, id := range cand.Slice() {
					return libmem.NewNodeMask(id)
				}
				return 0
			}}))
	}
	return libmem.NewAllocator(opts...)
}

func (e *lmExec) mkReq(op lmOp) *libmem.Request {
	opts := []libmem.RequestOption{libmem.WithPriority(libmem.Priority(op.Prio))}
	if op.Strict {
		opts = append(opts, libmem.WithStrictTypes(libmem.TypeMask(op.Types)))
	} else if op.Types != 0 {
		opts = append(opts, libmem.WithPreferredTypes(libmem.TypeMask(op.Types)))
	}
	return libmem.NewRequest(fmt.Sprintf("r%d", op.Slot), op.Size, libmem.NodeMask(op.Aff), opts...)
}

func (e *lmExec) observe(a *libmem.Allocator) *lmObs {
	o := &lmObs{zones: map[string]uint64{}}
	for s := 0; s < 10; s++ {
		id := fmt.Sprintf("r%d", s)
		if z, ok := a.AssignedZone(id); ok {
			o.zones[id] = uint64(z)
		}
	}
	a.ForeachRequest(nil, func(r *libmem.Request) bool {
		o.list = append(o.list, fmt.Sprintf("%s:%d:%d:%d", r.ID(), uint64(r.Zone()), r.Size(), r.Priority()))
		return true
	})
	sort.Strings(o.list)
	n := len(e.c.Nodes)
	for s := 0; s < 1<<uint(n); s++ {
		o.usage = append(o.usage, a.ZoneUsage(libmem.NodeMask(s)))
		o.free = append(o.free, a.ZoneFree(libmem.NodeMask(s)))
	}
	return o
}

func (o *lmObs) diff(p *lmObs) string {
	if len(o.zones) != len(p.zones) {
		return fmt.Sprintf("assignments %v vs %v", o.zones, p.zones)
	}
	for k, v := range o.zones {
		if p.zones[k] != v {
			return fmt.Sprintf("assignment of %s: %b vs %b", k, v, p.zones[k])
		}
	}
	if fmt.Sprint(o.list) != fmt.Sprint(p.list) {
		return fmt.Sprintf("request lists %v vs %v", o.list, p.list)
	}
	for i := range o.usage {
		if o.usage[i] != p.usage[i] || o.free[i] != p.free[i] {
			return fmt.Sprintf("usage/free of node set %b: %d/%d vs %d/%d", i, o.usage[i], o.free[i], p.usage[i], p.free[i])
		}
	}
	return ""
}

// The executor serves two properties. When a run decides one of them
// (VERIF_PROPERTY), a violation of the other one is counted and the history
// goes on, so that the property being decided is still judged on every step.
var lmFocus = os.Getenv("VERIF_PROPERTY")

func (e *lmExec) v06(clause, sig, f string, args ...any) *vfkit.Violation {
	if strings.HasPrefix(sig, "twin-") && (e.nondet || e.controlDiverged()) {
		e.labels["allocator-nondeterministic-on-this-history"] = true
		return nil
	}
	if lmFocus == "C07" {
		e.foreign++
		return nil
	}
	return &vfkit.Violation{Property: "C06", Clause: clause, Signature: sig, Detail: fmt.Sprintf(f, args...)}
}
func (e *lmExec) v07(clause, sig, f string, args ...any) *vfkit.Violation {
	if lmFocus == "C06" {
		e.foreign++
		return nil
	}
	return &vfkit.Violation{Property: "C07", Clause: clause, Signature: sig, Detail: fmt.Sprintf(f, args...)}
}

// controlDiverged compares the observable state of the two offer-less twins.
func (e *lmExec) controlDiverged() bool {
	if e.b == nil || e.b2 == nil {
		return false
	}
	if e.observe(e.b).diff(e.observe(e.b2)) != "" {
		e.nondet = true
	}
	return e.nondet
}

func (e *lmExec) typeNodes(types int) uint64 {
	var m uint64
	for i, n := range e.c.Nodes {
		if types&(1<<uint(n.Type)) != 0 {
			m |= 1 << uint(i)
		}
	}
	return m
}

func (e *lmExec) typesOf(mask uint64) int {
	t := 0
	for i, n := range e.c.Nodes {
		if mask&(1<<uint(i)) != 0 {
			t |= 1 << uint(n.Type)
		}
	}
	return t
}

// placement rules after a successful allocate/commit/realloc (C07)
func (e *lmExec) checkPlacement(what string, requester string, isNew bool, pre, post *lmObs, updates map[string]libmem.NodeMask, retZone libmem.NodeMask) *vfkit.Violation {
	n := len(e.c.Nodes)
	// every node set with allocations confined to it holds no more than its capacity
	for s := 1; s < 1<<uint(n); s++ {
		var used, capa int64
		for id, z := range post.zones {
			if z&^uint64(s) == 0 {
				used += e.live[id].size
			}
		}
		for i := 0; i < n; i++ {
			if s&(1<<uint(i)) != 0 {
				capa += e.c.Nodes[i].Cap
			}
		}
		if used > capa {
			isZone := false
			for _, z := range post.zones {
				if z == uint64(s) {
					isZone = true
				}
			}
			sig := "overcommit-of-an-assigned-zone"
			if !isZone {
				sig = "overcommit-on-union-of-zones-that-is-not-itself-a-zone"
			}
			if v := e.v07("node sets hold no more than their capacity", sig,
				"after %s: node set %b holds %d > capacity %d; assignments %v", what, s, used, capa, post.zones); v != nil {
				return v
			}
		}
	}
	if z, ok := post.zones[requester]; !ok || z != uint64(retZone) {
		if v := e.v07("returned zone is the assignment", "returned-zone-mismatch", "after %s: returned %b, AssignedZone %b (present=%v)", what, uint64(retZone), z, ok); v != nil {
			return v
		}
	}
	r := e.live[requester]
	z := post.zones[requester]
	if r.strict {
		if allowed := e.typeNodes(r.types); z&^allowed != 0 {
			if v := e.v07("strict request assigned only nodes of the requested types", "strict-type-violated",
				"after %s: %s strict types %03b got zone %b, nodes of those types %b", what, requester, r.types, z, allowed); v != nil {
				return v
			}
		}
	}
	if isNew {
		var normal uint64
		for i, nd := range e.c.Nodes {
			if nd.Normal && nd.Cap > 0 {
				normal |= 1 << uint(i)
			}
		}
		if z&normal == 0 {
			if v := e.v07("newly assigned zone contains a node with normal memory", "no-normal-memory", "after %s: %s zone %b, normal nodes %b", what, requester, z, normal); v != nil {
				return v
			}
		}
	} else if pz := pre.zones[requester]; pz&^z != 0 {
		if v := e.v07("re-allocation never removes nodes", "realloc-removed-nodes", "after %s: %s zone %b -> %b", what, requester, pz, z); v != nil {
			return v
		}
	}
	// other allocations: only moved to supersets, reservations never, updates exact
	changed := map[string]uint64{}
	for id, pz := range pre.zones {
		if id == requester {
			continue
		}
		nz, ok := post.zones[id]
		if !ok {
			if v := e.v07("existing allocations survive", "allocation-lost", "after %s: %s disappeared", what, id); v != nil {
				return v
			}
		}
		if nz != pz {
			changed[id] = nz
			if pz&^nz != 0 {
				if v := e.v07("existing allocations only move to supersets", "moved-to-non-superset", "after %s: %s moved %b -> %b", what, id, pz, nz); v != nil {
					return v
				}
			}
			if e.live[id].prio == int(libmem.Reservation) {
				if v := e.v07("memory reservations are never moved", "reservation-moved", "after %s: reservation %s moved %b -> %b", what, id, pz, nz); v != nil {
					return v
				}
			}
			if e.live[id].strict {
				if allowed := e.typeNodes(e.live[id].types); nz&^allowed != 0 {
					if v := e.v07("strict request assigned only nodes of the requested types", "strict-type-violated-by-move",
						"after %s: %s strict types %03b moved to %b", what, id, e.live[id].types, nz); v != nil {
						return v
					}
				}
			}
		}
	}
	if len(changed) != len(updates) {
		if v := e.v07("reported moves are exactly the changed assignments", "updates-inexact", "after %s: changed %v, reported %v", what, changed, updates); v != nil {
			return v
		}
	}
	for id, nz := range changed {
		if u, ok := updates[id]; !ok || uint64(u) != nz {
			if v := e.v07("reported moves are exactly the changed assignments", "updates-inexact", "after %s: changed %v, reported %v", what, changed, updates); v != nil {
				return v
			}
		}
	}
	if len(updates) > 0 {
		e.nt07 = true
		e.labels["moves-reported"] = true
		for id := range changed {
			if e.live[id].strict {
				e.labels["strict-request-moved"] = true
			}
		}
	}
	for id, r := range e.live {
		if r.prio == int(libmem.Reservation) && id != requester {
			for s := range post.usage {
				if post.free[s] < 0 {
					e.labels["reservation-present-in-overcommit"] = true
				}
			}
			break
		}
	}
	return nil
}

func sameUpdates(a, b map[string]libmem.NodeMask) bool {
	if len(a) != len(b) {
		return false
	}
	for k, v := range a {
		if b[k] != v {
			return false
		}
	}
	return true
}

// run executes the case; it returns the first violation (of either property).
func (e *lmExec) run() *vfkit.Violation {
	var err error
	if e.a, err = lmNewAllocator(e.c); err != nil {
		return nil // machine refused (e.g. bad distances): trivial
	}
	e.b, _ = lmNewAllocator(e.c)
	// control: a second twin that sees exactly what the first one sees. If the two
	// ever disagree, the allocator's own choices (map iteration order) are not a
	// function of the history for this case and the twin clauses are not judged.
	e.b2, _ = lmNewAllocator(e.c)
	e.live = map[string]*lmReq{}
	e.labels = map[string]bool{}
	if e.c.Expand != "" {
		e.labels["custom-expansion"] = true
	}

	for i, op := range e.c.Ops {
		what := fmt.Sprintf("op %d %+v", i, op)
		id := fmt.Sprintf("r%d", op.Slot)
		pre := e.observe(e.a)
		switch op.Kind {
		case "alloc", "commit":
			var (
				zone    libmem.NodeMask
				updates map[string]libmem.NodeMask
				err     error
				rop     = op
			)
			if op.Kind == "commit" {
				if len(e.offers) == 0 {
					continue
				}
				k := op.Offer % len(e.offers)
				of := e.offers[k]
				e.offers = append(e.offers[:k], e.offers[k+1:]...)
				rop = of.op
				id = fmt.Sprintf("r%d", rop.Slot)
				what = fmt.Sprintf("op %d commit of offer for %+v taken %d successful changes ago", i, rop, e.mutations-of.takenAt)
				zone, updates, err = of.offer.Commit()
				stale := e.mutations > of.takenAt
				if stale {
					e.nt06 = true
					e.labels["stale-commit-attempted"] = true
				}
				if stale && of.judged && err == nil {
					if v := e.v06("an offer taken before a later successful allocation/re-allocation/release/commit is refused",
						"stale-offer-accepted", "%s was accepted (zone %b)", what, uint64(zone)); v != nil {
						return v
					}
				}
				if !stale && err != nil {
					if v := e.v06("committing a fresh offer succeeds like allocating directly", "fresh-offer-refused", "%s: %v", what, err); v != nil {
						return v
					}
				}
				if err != nil {
					if d := e.observe(e.a).diff(pre); d != "" {
						if v := e.v06("a refused commit leaves the state unchanged", "failed-op-changed-state", "%s: %s", what, d); v != nil {
							return v
						}
					}
					continue
				}
				e.labels["offer-committed"] = true
			} else {
				zone, updates, err = e.a.Allocate(e.mkReq(op))
			}
			// twin: direct allocation of the same request
			bz, bu, berr := e.b.Allocate(e.mkReq(rop))
			if cz, cu, cerr := e.b2.Allocate(e.mkReq(rop)); (cerr == nil) != (berr == nil) || cz != bz || !sameUpdates(cu, bu) {
				e.nondet = true
			}
			if (err == nil) != (berr == nil) || (err == nil && (bz != zone || !sameUpdates(bu, updates))) {
				if v := e.v06("committing a fresh offer gives the same zone and updates as allocating directly; requesting offers never changes later results",
					"twin-divergence", "%s: with offers in the history: zone %b updates %v err %v; without: zone %b updates %v err %v",
					what, uint64(zone), updates, err, uint64(bz), bu, berr); v != nil {
					return v
				}
			}
			if err != nil {
				if d := e.observe(e.a).diff(pre); d != "" {
					if v := e.v06("a failed allocation leaves all assignments and usage unchanged", "failed-op-changed-state", "%s failed (%v): %s", what, err, d); v != nil {
						return v
					}
				}
				if errors.Is(err, libmem.ErrNoMem) && len(e.live) > 0 {
					e.nt06 = true
					e.labels["failed-overcommit-resolution"] = true
				}
				continue
			}
			types := rop.Types
			if types == 0 {
				types = e.typesOf(rop.Aff)
			}
			e.live[id] = &lmReq{size: rop.Size, prio: rop.Prio, strict: rop.Strict, types: types, aff: rop.Aff}
			e.mutations++
			post := e.observe(e.a)
			if v := e.checkPlacement(what, id, true, pre, post, updates, zone); v != nil {
				return v
			}
		case "offer":
			req := e.mkReq(op)
			of, err := e.a.GetOffer(req)
			if d := e.observe(e.a).diff(pre); d != "" {
				if v := e.v06("requesting an offer never changes allocator state", "getoffer-changed-state", "%s (err=%v): %s", what, err, d); v != nil {
					return v
				}
			}
			if err == nil {
				e.offers = append(e.offers, &lmOffer{offer: of, op: op, takenAt: e.mutations, judged: true})
				if len(e.offers) > 8 {
					e.offers = e.offers[1:]
				}
			}
		case "realloc":
			r, known := e.live[id]
			zone, updates, err := e.a.Realloc(id, libmem.NodeMask(op.Aff), libmem.TypeMask(op.Types))
			bz, bu, berr := e.b.Realloc(id, libmem.NodeMask(op.Aff), libmem.TypeMask(op.Types))
			if cz, cu, cerr := e.b2.Realloc(id, libmem.NodeMask(op.Aff), libmem.TypeMask(op.Types)); (cerr == nil) != (berr == nil) || cz != bz || !sameUpdates(cu, bu) {
				e.nondet = true
			}
			if (err == nil) != (berr == nil) || (err == nil && (bz != zone || !sameUpdates(bu, updates))) {
				if v := e.v06("requesting offers never changes later results", "twin-divergence",
					"%s: with offers: zone %b updates %v err %v; without: zone %b updates %v err %v", what, uint64(zone), updates, err, uint64(bz), bu, berr); v != nil {
					return v
				}
			}
			post := e.observe(e.a)
			if err != nil {
				if d := post.diff(pre); d != "" {
					if v := e.v06("a failed re-allocation leaves all assignments and usage unchanged", "failed-op-changed-state", "%s failed (%v): %s", what, err, d); v != nil {
						return v
					}
				}
				if errors.Is(err, libmem.ErrNoMem) {
					e.nt06 = true
					e.labels["failed-realloc"] = true
				}
				continue
			}
			if !known {
				if v := e.v06("re-allocating an unknown allocation fails", "realloc-unknown-succeeded", "%s", what); v != nil {
					return v
				}
			}
			if post.diff(pre) == "" {
				// successful no-op: the statement does not say whether it outdates offers
				for _, of := range e.offers {
					of.judged = false
				}
			} else {
				e.mutations++
				e.labels["realloc-changed-zone"] = true
			}
			// allowed types of a strict request grow by what was re-allocated
			add := op.Types
			if add == 0 {
				add = e.typesOf(op.Aff)
			}
			saved := r.types
			r.types |= add
			if v := e.checkPlacement(what, id, false, pre, post, updates, zone); v != nil {
				r.types = saved
				return v
			}
		case "release":
			_, known := e.live[id]
			err := e.a.Release(id)
			berr := e.b.Release(id)
			if cerr := e.b2.Release(id); (cerr == nil) != (berr == nil) {
				e.nondet = true
			}
			if (err == nil) != (berr == nil) {
				if v := e.v06("requesting offers never changes later results", "twin-divergence", "%s: %v vs %v", what, err, berr); v != nil {
					return v
				}
			}
			post := e.observe(e.a)
			if err != nil {
				if known {
					if v := e.v06("releasing a live allocation succeeds", "release-failed", "%s: %v", what, err); v != nil {
						return v
					}
				}
				if d := post.diff(pre); d != "" {
					if v := e.v06("a failed release leaves the state unchanged", "failed-op-changed-state", "%s: %s", what, d); v != nil {
						return v
					}
				}
				continue
			}
			if !known {
				if v := e.v06("releasing an unknown allocation fails", "release-unknown-succeeded", "%s", what); v != nil {
					return v
				}
			}
			// exactly that allocation is gone
			want := &lmObs{zones: map[string]uint64{}}
			for k, v := range pre.zones {
				if k != id {
					want.zones[k] = v
				}
			}
			for k, v := range want.zones {
				if post.zones[k] != v {
					if v := e.v06("releasing removes that allocation only", "release-touched-others", "%s: %s %b -> %b", what, k, v, post.zones[k]); v != nil {
						return v
					}
				}
			}
			if len(post.zones) != len(want.zones) {
				if v := e.v06("releasing removes that allocation only", "release-touched-others", "%s: assignments %v -> %v", what, pre.zones, post.zones); v != nil {
					return v
				}
			}
			sz, z := e.live[id].size, pre.zones[id]
			var hasMem uint64
			for i, nd := range e.c.Nodes {
				if nd.Cap > 0 {
					hasMem |= 1 << uint(i)
				}
			}
			for s := range pre.usage {
				wantU := pre.usage[s]
				// the public ZoneUsage masks the queried set with the nodes that have memory
				if z&^(uint64(s)&hasMem) == 0 {
					wantU -= sz
				}
				if post.usage[s] != wantU {
					if v := e.v06("releasing removes that allocation only", "release-usage-wrong", "%s: usage of node set %b: %d -> %d, expected %d", what, s, pre.usage[s], post.usage[s], wantU); v != nil {
						return v
					}
				}
			}
			if len(post.list) != len(pre.list)-1 {
				if v := e.v06("releasing removes that allocation only", "release-touched-others", "%s: requests %v -> %v", what, pre.list, post.list); v != nil {
					return v
				}
			}
			delete(e.live, id)
			e.mutations++
		case "reset":
			e.a.Reset()
			e.b.Reset()
			e.b2.Reset()
			e.live = map[string]*lmReq{}
			e.offers = nil // offers straddling a reset are not judged
			e.mutations++
			if post := e.observe(e.a); len(post.zones) != 0 || len(post.list) != 0 {
				if v := e.v06("reset releases everything", "reset-left-allocations", "%s: %v", what, post.zones); v != nil {
					return v
				}
			}
		}
		// after every operation both twins must be in the same observable state
		if d := e.observe(e.a).diff(e.observe(e.b)); d != "" {
			if v := e.v06("requesting offers never changes allocator state; commit of a fresh offer equals direct allocation",
				"twin-state-divergence", "after %s: %s", what, d); v != nil {
				return v
			}
		}
	}
	return nil
}

func lmLabels(e *lmExec) []string {
	out := []string{}
	for l := range e.labels {
		out = append(out, l)
	}
	sort.Strings(out)
	return out
}

func lmCheck(t vfkit.Fataler, c *lmCase, unit string, record bool) {
	e := &lmExec{c: c}
	var v *vfkit.Violation
	func() {
		defer func() {
			if r := recover(); r != nil {
				v = &vfkit.Violation{Property: "C06", Clause: "no operation panics", Signature: "panic", Detail: fmt.Sprint(r)}
			}
		}()
		v = e.run()
	}()
	key := vfkit.Hash(c)
	if record {
		labels := lmLabels(e)
		vfkit.For("C06").Case(unit, e.nt06, key, labels...)
		vfkit.For("C07").Case(unit, e.nt07, key, labels...)
		for _, p := range []string{"C06", "C07"} {
			st := vfkit.For(p)
			if ((p == "C06" && e.nt06) || (p == "C07" && e.nt07)) && st.WantSample() && len(c.Ops) <= 12 {
				st.Sample(c)
			}
		}
	}
	if v != nil && strings.HasPrefix(v.Signature, "twin-") {
		// the allocator's choices depend on map order for some histories: a twin
		// difference is believed only if it shows in every one of six more executions
		for i := 0; i < 6 && v != nil; i++ {
			var w *vfkit.Violation
			func() {
				defer func() { _ = recover() }()
				w = (&lmExec{c: c}).run()
			}()
			if w == nil || w.Signature != v.Signature {
				vfkit.For(v.Property).SelfCheckFailed()
				v = nil
			}
		}
	}
	if v != nil {
		c = lmMinimize(c, v)
		vfkit.For(v.Property).Report(t, unit, v, c)
	}
}

// lmMinimize removes operations one at a time while the same violation
// (property + signature) persists. It runs on top of rapid's own shrinking,
// which works on draws and tends to leave no-op operations behind.
func lmMinimize(c *lmCase, v *vfkit.Violation) *lmCase {
	same := func(cand *lmCase) bool {
		var w *vfkit.Violation
		func() {
			defer func() { _ = recover() }()
			w = (&lmExec{c: cand}).run()
		}()
		if w == nil || w.Property != v.Property || w.Signature != v.Signature {
			return false
		}
		if strings.HasPrefix(v.Signature, "twin-") {
			// keep only reductions on which the difference is still reproducible
			for i := 0; i < 4; i++ {
				var w2 *vfkit.Violation
				func() {
					defer func() { _ = recover() }()
					w2 = (&lmExec{c: cand}).run()
				}()
				if w2 == nil || w2.Signature != v.Signature {
					return false
				}
			}
		}
		return true
	}
	cur := *c
	for changed := true; changed; {
		changed = false
		for i := len(cur.Ops) - 1; i >= 0; i-- {
			cand := cur
			cand.Ops = append(append([]lmOp{}, cur.Ops[:i]...), cur.Ops[i+1:]...)
			if same(&cand) {
				cur = cand
				changed = true
			}
		}
	}
	return &cur
}

func TestVerifLibmem(t *testing.T) {
	defer vfkit.Flush()
	rapid.Check(t, func(t *rapid.T) {
		c := lmGenCase(t, false)
		lmCheck(t, c, "histories", true)
	})
}

func TestVerifLibmemOvercommit(t *testing.T) {
	defer vfkit.Flush()
	rapid.Check(t, func(t *rapid.T) {
		c := lmGenCase(t, true)
		lmCheck(t, c, "overcommit-histories", true)
	})
}

func TestVerifLibmemReplay(t *testing.T) {
	c := &lmCase{}
	rf, ok, err := vfkit.LoadReplay(c)
	if !ok {
		t.Skip("no replay file")
	}
	if err != nil {
		t.Fatalf("replay: %v", err)
	}
	lmCheck(t, c, rf.Unit, false)
}

//go:build verif && verifwb

package topologyaware

import (
	"sort"

	libmem "github.com/containers/nri-plugins/pkg/resmgr/lib/memory"
	policyapi "github.com/containers/nri-plugins/pkg/resmgr/policy"
)

// Read-only snapshots of the topology-aware policy for the verification
// harness (build tags verif+verifwb only; never part of a normal build).

type VerifPool struct {
	Name            string `json:"name"`
	Parent          string `json:"parent"`
	Kind            string `json:"kind"`
	Depth           int    `json:"depth"`
	TotalIsolated   string `json:"total_isolated"`
	TotalReserved   string `json:"total_reserved"`
	TotalSharable   string `json:"total_sharable"`
	FreeIsolated    string `json:"free_isolated"`
	FreeReserved    string `json:"free_reserved"`
	FreeSharable    string `json:"free_sharable"`
	GrantedShared   int    `json:"granted_shared"`   // local to this pool
	GrantedReserved int    `json:"granted_reserved"` // local to this pool
	Mem             []int  `json:"mem"`
	PMem            []int  `json:"pmem"`
	HBM             []int  `json:"hbm"`
}

type VerifGrant struct {
	Container string `json:"container"`
	Pool      string `json:"pool"`
	Exclusive string `json:"exclusive"`
	Isolated  string `json:"isolated"`
	CPUType   string `json:"cputype"`
	Portion   int    `json:"portion"`
	MemType   int    `json:"memtype"`
	MemZone   uint64 `json:"memzone"`
	MemSize   int64  `json:"memsize"`
}

type VerifSnapshot struct {
	Allowed  string       `json:"allowed"`
	Reserved string       `json:"reserved"`
	Isolated string       `json:"isolated"`
	Pools    []VerifPool  `json:"pools"`
	Grants   []VerifGrant `json:"grants"`
}

// VerifSnap returns a snapshot of pools and grants, or nil for another backend.
func VerifSnap(b policyapi.Backend) *VerifSnapshot {
	p, ok := b.(*policy)
	if !ok || p.root == nil {
		return nil
	}
	s := &VerifSnapshot{Allowed: p.allowed.String(), Reserved: p.reserved.String(), Isolated: p.isolated.String()}
	for _, n := range p.pools {
		total := n.GetSupply().(*supply)
		free := n.FreeSupply().(*supply)
		vp := VerifPool{
			Name: n.Name(), Kind: string(n.Kind()), Depth: n.RootDistance(),
			TotalIsolated: total.isolated.String(), TotalReserved: total.reserved.String(), TotalSharable: total.sharable.String(),
			FreeIsolated: free.isolated.String(), FreeReserved: free.reserved.String(), FreeSharable: free.sharable.String(),
			GrantedShared: free.grantedShared, GrantedReserved: free.grantedReserved,
			Mem:  n.GetMemset(memoryDRAM).SortedMembers(),
			PMem: n.GetMemset(memoryPMEM).SortedMembers(),
			HBM:  n.GetMemset(memoryHBM).SortedMembers(),
		}
		if !n.IsRootNode() {
			vp.Parent = n.Parent().Name()
		}
		s.Pools = append(s.Pools, vp)
	}
	for id, g := range p.allocations.grants {
		s.Grants = append(s.Grants, VerifGrant{
			Container: id, Pool: g.GetCPUNode().Name(), Exclusive: g.ExclusiveCPUs().String(),
			Isolated: g.IsolatedCPUs().String(), CPUType: g.CPUType().String(), Portion: g.CPUPortion(),
			MemType: int(g.MemoryType()), MemZone: uint64(g.GetMemoryZone()), MemSize: g.GetMemorySize(),
		})
	}
	sort.Slice(s.Grants, func(i, j int) bool { return s.Grants[i].Container < s.Grants[j].Container })
	return s
}

// VerifAllocator exposes the policy's memory allocator for read-only queries.
func VerifAllocator(b policyapi.Backend) *libmem.Allocator {
	if p, ok := b.(*policy); ok {
		return p.memAllocator
	}
	return nil
}

// VerifMemoryPreserve is the memoryType value marking a preserved grant.
const VerifMemoryPreserve = int(memoryPreserve)

//go:build verif

package sysfs_test

import (
	"fmt"
	"path/filepath"
	"testing"

	"pgregory.net/rapid"

	logger "github.com/containers/nri-plugins/pkg/log"
	"github.com/containers/nri-plugins/pkg/sysfs"
	"github.com/containers/nri-plugins/pkg/zzverif/vfkit"
)

const c16 = "C16"

func init() { logger.SetLevel(logger.LevelError) }

// c16Discover checks model -> sysfs files -> DiscoverSystemAt -> accessors == model.
func c16Discover(topo *vfkit.Topo) *vfkit.Violation {
	root, err := topo.Fixture()
	if err != nil {
		panic(fmt.Errorf("harness: cannot write fixture: %v", err))
	}
	sys, err := sysfs.DiscoverSystemAt(filepath.Join(root, "sys"))
	viol := func(clause, sig, format string, args ...any) *vfkit.Violation {
		return &vfkit.Violation{Property: c16, Clause: clause, Signature: sig, Detail: fmt.Sprintf(format, args...)}
	}
	if err != nil {
		return viol("discovery succeeds on a well-formed machine", "discovery-error", "%v", err)
	}
	eq := func(got fmt.Stringer, want vfkit.IDSet) bool {
		g, err := vfkit.ParseIDSet(got.String())
		return err == nil && g.Equal(want)
	}
	// system-level sets
	ids := vfkit.NewIDSet(sys.CPUIDs()...)
	if !ids.Equal(topo.AllCPUs()) {
		return viol("CPU ids", "cpu-ids", "got %s want %s", ids, topo.AllCPUs())
	}
	if !eq(sys.OnlineCPUs(), topo.OnlineCPUs()) {
		return viol("online set", "online-set", "got %s want %s", sys.OnlineCPUs(), topo.OnlineCPUs())
	}
	if !eq(sys.OfflineCPUs(), topo.OfflineCPUs()) || !eq(sys.Offlined(), topo.OfflineCPUs()) {
		return viol("offline set", "offline-set", "got %s want %s", sys.OfflineCPUs(), topo.OfflineCPUs())
	}
	if !eq(sys.IsolatedCPUs(), topo.IsolatedCPUs()) || !eq(sys.Isolated(), topo.IsolatedCPUs()) {
		return viol("isolated set", "isolated-set", "got %s want %s", sys.IsolatedCPUs(), topo.IsolatedCPUs())
	}
	if !eq(sys.CPUSet(), topo.AllCPUs()) {
		return viol("CPUSet()", "cpuset-all", "got %s want %s", sys.CPUSet(), topo.AllCPUs())
	}
	// per CPU
	for _, mc := range topo.CPUs {
		c := sys.CPU(mc.ID)
		if c == nil {
			return viol("CPU present", "cpu-missing", "cpu %d", mc.ID)
		}
		if c.ID() != mc.ID || c.Online() != mc.Online || c.Isolated() != mc.Isolated {
			return viol("per-CPU id/online/isolated", "cpu-flags", "cpu %d: id=%d online=%v isolated=%v want %+v", mc.ID, c.ID(), c.Online(), c.Isolated(), mc)
		}
		if c.NodeID() != mc.Node {
			return viol("per-CPU NUMA node", "cpu-node", "cpu %d: node %d want %d", mc.ID, c.NodeID(), mc.Node)
		}
		if !mc.Online {
			continue
		}
		if c.PackageID() != mc.Pkg || c.DieID() != mc.Die || c.CoreID() != mc.Core || c.ClusterID() != mc.Cluster {
			return viol("per-CPU package/die/core/cluster", "cpu-topology-ids",
				"cpu %d: pkg=%d die=%d core=%d cluster=%d want %+v", mc.ID, c.PackageID(), c.DieID(), c.CoreID(), c.ClusterID(), mc)
		}
		if !eq(c.ThreadCPUSet(), topo.ThreadsOf(mc.ID)) {
			return viol("thread siblings", "cpu-threads", "cpu %d: %s want %s", mc.ID, c.ThreadCPUSet(), topo.ThreadsOf(mc.ID))
		}
		wantKind := sysfs.PerformanceCore
		if mc.ECore {
			wantKind = sysfs.EfficientCore
		}
		if c.CoreKind() != wantKind {
			return viol("core kind", "cpu-corekind", "cpu %d: %v want %v", mc.ID, c.CoreKind(), wantKind)
		}
		if c.BaseFrequency() != mc.BaseFreq {
			return viol("base frequency", "cpu-basefreq", "cpu %d: %d want %d", mc.ID, c.BaseFrequency(), mc.BaseFreq)
		}
		wantEPP := sysfs.EPPUnknown
		if mc.EPP != "" {
			wantEPP = sysfs.EPPFromString(mc.EPP)
		}
		if c.EPP() != wantEPP {
			return viol("EPP", "cpu-epp", "cpu %d: %v want %v", mc.ID, c.EPP(), wantEPP)
		}
		// cache-sharing sets, through every accessor
		if c.CacheCount() != 4 {
			return viol("cache count", "cache-count", "cpu %d: %d want 4", mc.ID, c.CacheCount())
		}
		wantSets := map[int]vfkit.IDSet{1: topo.ThreadsOf(mc.ID), 2: topo.L2CPUs(mc.ID), 3: topo.L3CPUs(mc.ID)}
		for lvl, want := range wantSets {
			if !eq(c.GetNthLevelCacheCPUSet(lvl), want) {
				return viol("cache-sharing set per level", "cache-level-set", "cpu %d level %d: %s want %s", mc.ID, lvl, c.GetNthLevelCacheCPUSet(lvl), want)
			}
			for _, cch := range c.GetCachesByLevel(lvl) {
				if cch.Level() != lvl || !eq(cch.SharedCPUSet(), want) {
					return viol("GetCachesByLevel", "cache-bylevel", "cpu %d level %d: %s want %s", mc.ID, lvl, cch.SharedCPUSet(), want)
				}
			}
		}
		if n := len(c.GetCachesByLevel(1)); n != 2 {
			return viol("two L1 caches", "cache-l1-count", "cpu %d: %d", mc.ID, n)
		}
		if !eq(c.GetLastLevelCacheCPUSet(), topo.L3CPUs(mc.ID)) {
			return viol("last-level cache set", "cache-llc-set", "cpu %d: %s want %s", mc.ID, c.GetLastLevelCacheCPUSet(), topo.L3CPUs(mc.ID))
		}
		wantIDs := []int{mc.Pkg*1000 + mc.Core, mc.Pkg*1000 + mc.Core, mc.L2, mc.L3}
		wantLvl := []int{1, 1, 2, 3}
		wantType := []sysfs.CacheType{sysfs.DataCache, sysfs.InstructionCache, sysfs.UnifiedCache, sysfs.UnifiedCache}
		wantSize := []uint64{32 << 10, 32 << 10, 2048 << 10, 32768 << 10}
		all := c.GetCaches()
		if len(all) != 4 {
			return viol("GetCaches lists the CPU's caches", "getcaches-empty", "cpu %d: GetCaches() returned %d caches, CacheCount()=%d", mc.ID, len(all), c.CacheCount())
		}
		for i := 0; i < 4; i++ {
			for _, cch := range []*sysfs.Cache{c.GetCacheByIndex(i), all[i]} {
				if cch == nil || cch.ID() != wantIDs[i] || cch.Level() != wantLvl[i] || cch.Type() != wantType[i] || cch.Size() != wantSize[i] {
					return viol("cache by index", "cache-byindex", "cpu %d index %d: %+v", mc.ID, i, cch)
				}
			}
		}
	}
	// packages
	pk := vfkit.NewIDSet(sys.PackageIDs()...)
	if !pk.Equal(vfkit.NewIDSet(topo.Packages()...)) {
		return viol("package ids", "package-ids", "got %s want %v", pk, topo.Packages())
	}
	if sys.PackageCount() != len(topo.Packages()) || sys.SocketCount() != len(topo.Packages()) {
		return viol("package count", "package-count", "got %d", sys.PackageCount())
	}
	for _, p := range topo.Packages() {
		pkg := sys.Package(p)
		if !eq(pkg.CPUSet(), topo.PkgCPUs(p)) {
			return viol("package CPUs", "package-cpus", "pkg %d: %s want %s", p, pkg.CPUSet(), topo.PkgCPUs(p))
		}
		if !vfkit.NewIDSet(pkg.DieIDs()...).Equal(vfkit.NewIDSet(topo.Dies(p)...)) {
			return viol("package dies", "package-dies", "pkg %d: %v want %v", p, pkg.DieIDs(), topo.Dies(p))
		}
		if !vfkit.NewIDSet(pkg.NodeIDs()...).Equal(vfkit.NewIDSet(topo.PkgNodes(p)...)) {
			return viol("package nodes", "package-nodes", "pkg %d: %v want %v", p, pkg.NodeIDs(), topo.PkgNodes(p))
		}
		for _, d := range topo.Dies(p) {
			if !eq(pkg.DieCPUSet(d), topo.DieCPUs(p, d)) {
				return viol("die CPUs", "die-cpus", "pkg %d die %d: %s want %s", p, d, pkg.DieCPUSet(d), topo.DieCPUs(p, d))
			}
			if !vfkit.NewIDSet(pkg.DieNodeIDs(d)...).Equal(vfkit.NewIDSet(topo.DieNodes(p, d)...)) {
				return viol("die nodes", "die-nodes", "pkg %d die %d: %v want %v", p, d, pkg.DieNodeIDs(d), topo.DieNodes(p, d))
			}
		}
	}
	// nodes
	nids := vfkit.NewIDSet(sys.NodeIDs()...)
	wantN := vfkit.IDSet{}
	for _, n := range topo.Nodes {
		wantN.Add(n.ID)
	}
	if !nids.Equal(wantN) {
		return viol("node ids", "node-ids", "got %s want %s", nids, wantN)
	}
	for _, mn := range topo.Nodes {
		n := sys.Node(mn.ID)
		if !eq(n.CPUSet(), topo.NodeCPUs(mn.ID)) {
			return viol("node CPU list", "node-cpus", "node %d: %s want %s", mn.ID, n.CPUSet(), topo.NodeCPUs(mn.ID))
		}
		d := n.Distance()
		if len(d) != len(topo.Nodes) {
			return viol("node distances", "node-distance-len", "node %d: %v", mn.ID, d)
		}
		for j := range d {
			if d[j] != topo.Dist[mn.ID][j] || n.DistanceFrom(j) != topo.Dist[mn.ID][j] || sys.NodeDistance(mn.ID, j) != topo.Dist[mn.ID][j] {
				return viol("node distances", "node-distance", "node %d->%d: %d want %d", mn.ID, j, d[j], topo.Dist[mn.ID][j])
			}
		}
		mi, err := n.MemoryInfo()
		if err != nil || mi == nil {
			return viol("node memory info", "node-meminfo-error", "node %d: %v", mn.ID, err)
		}
		if mi.MemTotal != mn.MemKB*1024 || mi.MemFree != mn.FreeKB*1024 || mi.MemUsed != (mn.MemKB-mn.FreeKB)*1024 {
			return viol("node memory sizes", "node-meminfo", "node %d: %+v want total %d kB free %d kB", mn.ID, *mi, mn.MemKB, mn.FreeKB)
		}
		if n.HasNormalMemory() != (mn.MemKB > 0 && !mn.Movable) {
			return viol("node normal memory", "node-normalmem", "node %d: %v", mn.ID, n.HasNormalMemory())
		}
		wantKind := topo.NodeKind(mn.ID)
		if n.GetMemoryType().String() != wantKind {
			return viol("node memory type", "node-memtype", "node %d: %s want %s", mn.ID, n.GetMemoryType(), wantKind)
		}
		if topo.CPUNodes().Has(mn.ID) {
			anyCPU := topo.NodeCPUs(mn.ID).Sorted()[0]
			if n.PackageID() != topo.CPUs[anyCPU].Pkg || n.DieID() != topo.CPUs[anyCPU].Die {
				return viol("node package/die", "node-pkg-die", "node %d: pkg %d die %d", mn.ID, n.PackageID(), n.DieID())
			}
		}
	}
	return nil
}

func c16Nontrivial(topo *vfkit.Topo) bool {
	n := 0
	for _, f := range topo.Features() {
		switch f {
		case "multi-die", "snc", "cpuless-node", "memoryless-cpu-node", "offline-cpus", "isolated-cpus", "hybrid":
			n++
		}
	}
	return n >= 2
}

func TestVerifC16Discovery(t *testing.T) {
	defer vfkit.Flush()
	st := vfkit.For(c16)
	unit := "discovery"
	rapid.Check(t, func(t *rapid.T) {
		topo := vfkit.GenTopo(t, vfkit.TopoOpts{})
		labels := []string{}
		for _, f := range topo.Features() {
			labels = append(labels, "hw:"+f)
		}
		nt := c16Nontrivial(topo)
		st.Case(unit, nt, topo.Key(), labels...)
		if nt && st.WantSample() {
			st.Sample(topo.Summary())
		}
		if v := c16Discover(topo); v != nil {
			st.Report(t, unit, v, topo)
		}
	})
}

func TestVerifC16DiscoveryReplay(t *testing.T) {
	topo := &vfkit.Topo{}
	_, ok, err := vfkit.LoadReplay(topo)
	if !ok {
		t.Skip("no replay file")
	}
	if err != nil {
		t.Fatalf("replay: %v", err)
	}
	if v := c16Discover(topo); v != nil {
		vfkit.For(c16).Report(t, "discovery", v, topo)
	}
}

//go:build verif

package cpuallocator_test

import (
	"fmt"
	"path/filepath"
	"testing"

	"pgregory.net/rapid"

	"github.com/containers/nri-plugins/pkg/cpuallocator"
	logger "github.com/containers/nri-plugins/pkg/log"
	"github.com/containers/nri-plugins/pkg/sysfs"
	"github.com/containers/nri-plugins/pkg/utils/cpuset"
	"github.com/containers/nri-plugins/pkg/zzverif/vfkit"
)

const c08 = "C08"

func init() { logger.SetLevel(logger.LevelError) }

type c08Call struct {
	Release bool `json:"release"`
	Count   int  `json:"count"`
	Prio    int  `json:"prio"`  // 0 high, 1 normal, 2 low, 3 none
	Flags   int  `json:"flags"` // bit set of the four AllocFlags; -1 = leave default
}

type c08Case struct {
	Topo  *vfkit.Topo `json:"topo"`
	From  vfkit.IDSet `json:"from"`
	Calls []c08Call   `json:"calls"`
}

func c08Options(c c08Call) []cpuallocator.Option {
	opts := []cpuallocator.Option{cpuallocator.WithPriority(cpuallocator.CPUPriority(c.Prio))}
	if c.Flags >= 0 {
		opts = append(opts, cpuallocator.WithAllocFlags(cpuallocator.AllocFlag(c.Flags)))
	}
	return opts
}

func c08ToIDSet(cs cpuset.CPUSet) vfkit.IDSet { return vfkit.NewIDSet(cs.List()...) }

// one call on allocator a, starting from set; returns result, new set, err
func c08Do(a cpuallocator.CPUAllocator, set vfkit.IDSet, c c08Call) (res, after vfkit.IDSet, err error) {
	from := cpuset.New(set.Sorted()...)
	var r cpuset.CPUSet
	if c.Release {
		r, err = a.ReleaseCpus(&from, c.Count, c08Options(c)...)
	} else {
		r, err = a.AllocateCpus(&from, c.Count, c08Options(c)...)
	}
	return c08ToIDSet(r), c08ToIDSet(from), err
}

func c08Run(cs *c08Case, st *vfkit.Stats) *vfkit.Violation {
	key := cs.Topo.Key()
	sys, ok := c08Systems[key]
	if !ok {
		root, err := cs.Topo.Fixture()
		if err != nil {
			panic(err)
		}
		sys, err = sysfs.DiscoverSystemAt(filepath.Join(root, "sys"))
		if err != nil {
			return &vfkit.Violation{Property: c08, Clause: "discovery", Signature: "discovery-error", Detail: err.Error()}
		}
		c08Systems[key] = sys
		// an independently discovered instance of the same machine
		sys2, err := sysfs.DiscoverSystemAt(filepath.Join(root, "sys"))
		if err != nil {
			panic(err)
		}
		c08Systems2[key] = sys2
	}
	other := cpuallocator.NewCPUAllocator(c08Systems2[key])
	viol := func(clause, sig, f string, args ...any) *vfkit.Violation {
		return &vfkit.Violation{Property: c08, Clause: clause, Signature: sig, Detail: fmt.Sprintf(f, args...)}
	}
	a := cpuallocator.NewCPUAllocator(sys)
	fresh := cpuallocator.NewCPUAllocator(sys)
	set := cs.From.Clone()
	for i, c := range cs.Calls {
		set0 := set.Clone()
		res, after, err := c08Do(a, set0, c)
		n := c.Count
		if c.Release {
			// ReleaseCpus(from, n): *from is left holding the n released CPUs, the
			// kept ones are returned (this is how both balloons call sites use it)
			keepCnt := set0.Size() - n
			switch {
			case n < 0 || n > set0.Size():
				// outside the stated domain for release; only demand no corruption
				if err == nil && !(res.Union(after).Equal(set0) && res.Disjoint(after)) {
					return viol("out-of-domain release keeps the set a partition", "release-domain-corrupt", "call %d %+v on %s: kept %s left %s", i, c, set0, res, after)
				}
			default:
				if err != nil {
					return viol("release n<=|set| succeeds", "release-error", "call %d %+v on %s: %v", i, c, set0, err)
				}
				if after.Size() != n || res.Size() != keepCnt || !res.Disjoint(after) || !res.Union(after).Equal(set0) {
					return viol("release removes exactly n CPUs and leaves the others", "release-partition",
						"call %d %+v on %s: kept %s (want %d) released %s (want %d)", i, c, set0, res, keepCnt, after, n)
				}
			}
		} else {
			switch {
			case n > set0.Size():
				if err == nil {
					return viol("request for more CPUs than the set holds fails", "alloc-too-many-no-error", "call %d %+v on %s: got %s", i, c, set0, res)
				}
				if !after.Equal(set0) {
					return viol("failed request leaves the set unchanged", "alloc-too-many-set-changed", "call %d %+v on %s: set now %s", i, c, set0, after)
				}
			case n >= 0:
				if err != nil {
					return viol("allocating n<=|set| succeeds", "alloc-error", "call %d %+v on %s: %v", i, c, set0, err)
				}
				if res.Size() != n {
					return viol("exactly n CPUs returned", "alloc-count", "call %d %+v on %s: got %s (%d)", i, c, set0, res, res.Size())
				}
				if !res.SubsetOf(set0) {
					return viol("result taken from the set", "alloc-not-subset", "call %d %+v on %s: got %s", i, c, set0, res)
				}
				if !after.Equal(set0.Minus(res)) {
					return viol("exactly the returned CPUs are removed from the set", "alloc-set-bookkeeping", "call %d %+v on %s: got %s, set now %s", i, c, set0, res, after)
				}
			}
		}
		// determinism: same call on a never-used allocator over the same
		// discovered system, and repeated on the same allocator
		r2, a2, e2 := c08Do(fresh, set0, c)
		r3, a3, e3 := c08Do(a, set0, c)
		r4, a4, e4 := c08Do(other, set0, c)
		if !r4.Equal(res) || !a4.Equal(after) || (e4 == nil) != (err == nil) {
			return viol("outcome is a deterministic function of topology, set, count and options", "nondeterministic-across-discoveries",
				"call %d %+v on %s: first %s/%s, allocator over a second discovery of the same sysfs tree %s/%s", i, c, set0, res, after, r4, a4)
		}
		if !r2.Equal(res) || !a2.Equal(after) || (e2 == nil) != (err == nil) ||
			!r3.Equal(res) || !a3.Equal(after) || (e3 == nil) != (err == nil) {
			return viol("outcome is a deterministic function of topology, set, count and options", "nondeterministic",
				"call %d %+v on %s: first %s/%s, fresh allocator %s/%s, repeated %s/%s", i, c, set0, res, after, r2, a2, r3, a3)
		}
		// classification
		if st != nil {
			labels := []string{fmt.Sprintf("prio:%d", c.Prio), fmt.Sprintf("flags:%d", c.Flags)}
			if c.Release {
				labels = append(labels, "op:release")
			} else {
				labels = append(labels, "op:alloc")
			}
			eff := n
			if c.Release {
				eff = set0.Size() - n
			}
			wholePkgs := true
			for _, p := range cs.Topo.Packages() {
				in := cs.Topo.PkgCPUs(p).Intersect(set0)
				if in.Size() != 0 && in.Size() != cs.Topo.PkgCPUs(p).Size() {
					wholePkgs = false
				}
			}
			nt := eff > 1 && eff < set0.Size()-1 && !wholePkgs
			if !set0.Equal(cs.Topo.OnlineCPUs()) {
				labels = append(labels, "set-with-holes")
			}
			if cs.Topo.Hybrid {
				labels = append(labels, "hybrid")
			}
			partialL2 := false
			for id := range set0 {
				l2 := cs.Topo.L2CPUs(id)
				if !l2.SubsetOf(set0) {
					partialL2 = true
					break
				}
			}
			if partialL2 {
				labels = append(labels, "partial-cache-group")
			}
			st.Case("calls", nt, vfkit.Hash([]any{cs.Topo.Key(), set0.String(), c}), labels...)
		}
		// evolve: the next call continues from what is left / kept
		if err == nil {
			if c.Release {
				set = res // the kept CPUs stay with the caller
			} else {
				set = after
			}
		}
	}
	return nil
}

var c08Pool []*vfkit.Topo
var c08Systems = map[string]sysfs.System{}
var c08Systems2 = map[string]sysfs.System{}

func c08Gen(t *rapid.T) *c08Case {
	if c08Pool == nil {
		c08Pool = vfkit.TopoPool(vfkit.EnvInt("VERIF_TOPOS", 60), vfkit.TopoOpts{NoSpecial: true})
	}
	topo := c08Pool[rapid.IntRange(0, len(c08Pool)-1).Draw(t, "machine")]
	online := topo.OnlineCPUs().Sorted()
	from := vfkit.IDSet{}
	switch rapid.IntRange(0, 3).Draw(t, "fromMode") {
	case 0:
		from = topo.OnlineCPUs()
	case 1: // random subset
		for _, id := range online {
			if rapid.Bool().Draw(t, "in") {
				from.Add(id)
			}
		}
	case 2: // drop a few CPUs
		from = topo.OnlineCPUs()
		k := rapid.IntRange(1, 4).Draw(t, "holes")
		for i := 0; i < k; i++ {
			delete(from, online[rapid.IntRange(0, len(online)-1).Draw(t, "hole")])
		}
	case 3: // whole NUMA nodes
		for _, n := range topo.CPUNodes().Sorted() {
			if rapid.Bool().Draw(t, "node") {
				from = from.Union(topo.NodeCPUs(n))
			}
		}
	}
	cs := &c08Case{Topo: topo, From: from}
	ncalls := rapid.IntRange(1, 6).Draw(t, "ncalls")
	size := from.Size()
	for i := 0; i < ncalls; i++ {
		c := c08Call{
			Release: rapid.IntRange(0, 3).Draw(t, "release") == 0,
			Count:   rapid.IntRange(0, size+2).Draw(t, "count"),
			Prio:    rapid.IntRange(0, 3).Draw(t, "prio"),
			Flags:   rapid.IntRange(-1, 15).Draw(t, "flags"),
		}
		if c.Release && c.Count > size {
			c.Count = size
		}
		cs.Calls = append(cs.Calls, c)
		if c.Count <= size {
			if c.Release {
				size -= c.Count
			} else {
				size -= c.Count
			}
		}
	}
	return cs
}

func TestVerifC08(t *testing.T) {
	defer vfkit.Flush()
	st := vfkit.For(c08)
	rapid.Check(t, func(t *rapid.T) {
		cs := c08Gen(t)
		if st.WantSample() && len(cs.Calls) > 1 {
			st.Sample(map[string]any{"machine": cs.Topo.Shape, "from": cs.From.String(), "calls": cs.Calls})
		}
		if v := c08Run(cs, st); v != nil {
			st.Report(t, "calls", v, cs)
		}
	})
}

func TestVerifC08Replay(t *testing.T) {
	cs := &c08Case{}
	_, ok, err := vfkit.LoadReplay(cs)
	if !ok {
		t.Skip("no replay file")
	}
	if err != nil {
		t.Fatalf("replay: %v", err)
	}
	if v := c08Run(cs, nil); v != nil {
		vfkit.For(c08).Report(t, "calls", v, cs)
	}
}

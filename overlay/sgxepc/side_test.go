//go:build verif

package main

import (
	"context"
	"fmt"
	"io"
	"sort"
	"strconv"
	"strings"
	"testing"

	"github.com/containerd/nri/pkg/api"
	"github.com/sirupsen/logrus"
	"pgregory.net/rapid"

	"github.com/containers/nri-plugins/pkg/zzverif/vfkit"
)

func init() {
	log = logrus.StandardLogger()
	log.SetOutput(io.Discard)
}

var sideNames = []string{"c", "cc", "c.c", "c-c", "ac", "ca", "pod", "container.c", "x/y", ""}

var sgxValues = []string{"0", "1", "65536", "18446744073709551615", "18446744073709551616", "-1", "", "abc", "1e3", " 5", "0x10", "\xff", strings.Repeat("9", 300)}

type sgxCase struct {
	Ctr     string            `json:"ctr"`
	Ann     map[string]string `json:"ann"`
	Verbose bool              `json:"verbose"`
	NilAnn  bool              `json:"nilann"`
}

func sgxGen(t *rapid.T) *sgxCase {
	c := &sgxCase{Ctr: rapid.SampledFrom(sideNames).Draw(t, "ctr"), Ann: map[string]string{}, Verbose: rapid.Bool().Draw(t, "verbose"),
		NilAnn: rapid.IntRange(0, 9).Draw(t, "nilann") == 0}
	n := rapid.IntRange(0, 4).Draw(t, "nann")
	for i := 0; i < n; i++ {
		val := rapid.SampledFrom(sgxValues).Draw(t, "val")
		switch rapid.IntRange(0, 3).Draw(t, "form") {
		case 0:
			c.Ann[epcLimitKey] = val
		case 1:
			c.Ann[epcLimitKey+"/pod"] = val
		case 2:
			c.Ann[epcLimitKey+"/container."+c.Ctr] = val
		default:
			c.Ann[epcLimitKey+"/container."+rapid.SampledFrom(sideNames).Draw(t, "other")] = val
		}
	}
	return c
}

func sgxCheck(c *sgxCase) (v14, v18 *vfkit.Violation, forms int) {
	// reference: container-specific, then pod-wide, then bare key
	var val string
	found := false
	for _, k := range []string{epcLimitKey + "/container." + c.Ctr, epcLimitKey + "/pod", epcLimitKey} {
		if v, ok := c.Ann[k]; ok {
			if !found {
				val, found = v, true
			}
			forms++
		}
	}
	wantErr, wantLimit := false, uint64(0)
	if found {
		n, err := strconv.ParseUint(val, 10, 64)
		if err != nil {
			wantErr = true
		}
		wantLimit = n
	}
	var first string
	for round := 0; round < 6; round++ {
		var (
			adj *api.ContainerAdjustment
			err error
			pan any
		)
		func() {
			defer func() { pan = recover() }()
			verbose = c.Verbose
			ann := map[string]string{}
			keys := []string{}
			for k := range c.Ann {
				keys = append(keys, k)
			}
			sort.Strings(keys)
			if round%2 == 1 {
				for i, j := 0, len(keys)-1; i < j; i, j = i+1, j-1 {
					keys[i], keys[j] = keys[j], keys[i]
				}
			}
			for _, k := range keys {
				ann[k] = c.Ann[k]
			}
			if c.NilAnn {
				ann = nil
			}
			pod := &api.PodSandbox{Id: "pod1", Name: "p", Namespace: "ns", Annotations: ann}
			adj, _, err = (&plugin{}).CreateContainer(context.Background(), pod, &api.Container{Id: "id1", PodSandboxId: "pod1", Name: c.Ctr})
		}()
		if pan != nil {
			return &vfkit.Violation{Property: "C14", Clause: "every handler of the side plugins returns and never panics", Signature: "panic:sgx-epc:CreateContainer",
				Detail: fmt.Sprintf("%+v: %v", *c, pan)}, nil, forms
		}
		got := "err"
		if err == nil {
			got = "ok:" + adj.GetLinux().GetResources().GetUnified()["misc.max"]
		}
		if round == 0 {
			first = got
		} else if got != first {
			return nil, &vfkit.Violation{Property: "C18", Clause: "the result does not depend on the order in which annotations are stored", Signature: "order-dependent:sgx-epc",
				Detail: fmt.Sprintf("%+v: %q vs %q", *c, first, got)}, forms
		}
	}
	if c.NilAnn {
		return nil, nil, 0
	}
	want := "ok:"
	if wantErr {
		want = "err"
	} else if wantLimit > 0 {
		want = "ok:sgx_epc " + strconv.FormatUint(wantLimit, 10)
	}
	if first != want {
		return nil, &vfkit.Violation{Property: "C18", Clause: "container-specific beats pod-wide beats the bare key; other containers' annotations have no effect", Signature: "epc-limit-differs",
			Detail: fmt.Sprintf("%+v: expected %q, got %q", *c, want, first)}, forms
	}
	return nil, nil, forms
}

func TestVerifSideSgxEpc(t *testing.T) {
	defer vfkit.Flush()
	rapid.Check(t, func(t *rapid.T) {
		c := sgxGen(t)
		v14, v18, forms := sgxCheck(c)
		vfkit.For("C14").Case("sgx-epc", len(c.Ann) > 0, vfkit.Hash(c))
		vfkit.For("C18").Case("sgx-epc", forms >= 2, vfkit.Hash(c))
		if forms >= 2 && vfkit.For("C18").WantSample() {
			vfkit.For("C18").Sample(c)
		}
		if v14 != nil {
			vfkit.For("C14").Report(t, "sgx-epc", v14, c)
		}
		if v18 != nil {
			vfkit.For("C18").Report(t, "sgx-epc", v18, c)
		}
	})
}

func TestVerifSideSgxEpcReplay(t *testing.T) {
	c := &sgxCase{}
	rf, ok, err := vfkit.LoadReplay(c)
	if !ok || rf.Unit != "sgx-epc" {
		t.Skip("no replay file for this unit")
	}
	if err != nil {
		t.Fatalf("replay: %v", err)
	}
	v14, v18, _ := sgxCheck(c)
	if v14 != nil {
		vfkit.For("C14").Report(t, "sgx-epc", v14, c)
	}
	if v18 != nil {
		vfkit.For("C18").Report(t, "sgx-epc", v18, c)
	}
}

//go:build verif && verifwb

package resmgr

import (
	"fmt"
	"path/filepath"
	"sort"
	"strconv"
	"strings"

	topologyaware "github.com/containers/nri-plugins/cmd/plugins/topology-aware/policy"
	polcfg "github.com/containers/nri-plugins/pkg/apis/config/v1alpha1/resmgr/policy"
	tacfg "github.com/containers/nri-plugins/pkg/apis/config/v1alpha1/resmgr/policy/topologyaware"
	libmem "github.com/containers/nri-plugins/pkg/resmgr/lib/memory"
	policyapi "github.com/containers/nri-plugins/pkg/resmgr/policy"
	"github.com/containers/nri-plugins/pkg/zzverif/vfkit"
)

const whiteBox = true

// ---------------------------------------------------------------------------
// reference readings of the configuration and of pod annotations
// ---------------------------------------------------------------------------

// effAnn is an own implementation of the documented annotation precedence:
// container-specific, then pod-wide, then bare key.
func effAnn(pod *hcPodSpec, key, ctr string) (string, bool) {
	k := key + "." + nsKey
	if v, ok := pod.Annotations[k+"/container."+ctr]; ok {
		return v, true
	}
	if v, ok := pod.Annotations[k+"/pod"]; ok {
		return v, true
	}
	v, ok := pod.Annotations[k]
	return v, ok
}

func effBool(pod *hcPodSpec, key, ctr string) (val, present bool) {
	v, ok := effAnn(pod, key, ctr)
	if !ok {
		return false, false
	}
	b, err := strconv.ParseBool(v)
	if err != nil {
		return false, false
	}
	return b, true
}

func (e *executor) taCfg() *tacfg.Config { return e.cfg.TA }

// withCfg evaluates f under another configuration (the one in effect when a
// container was last allocated).
func (e *executor) withCfg(cfg *vhConfig, f func() bool) bool {
	if cfg == nil {
		return false
	}
	saved := e.cfg
	e.cfg = cfg
	defer func() { e.cfg = saved }()
	return f()
}

func (e *executor) cpuPreserved(c *rtCtr) bool {
	v, ok := effAnn(&e.m.pods[c.Pod].Spec, "cpu.preserve", c.Spec.Name)
	return ok && v == "true"
}

func (e *executor) memPreserved(c *rtCtr) bool {
	v, ok := effAnn(&e.m.pods[c.Pod].Spec, "memory.preserve", c.Spec.Name)
	return ok && v == "true"
}

func nsReserved(ns string, globs []string) bool {
	if ns == "kube-system" {
		return true
	}
	for _, g := range globs {
		if ok, err := filepath.Match(g, ns); err == nil && ok {
			return true
		}
	}
	return false
}

// reservedClass: kube-system, reserved namespaces, reserved-CPU annotation.
func (e *executor) reservedClass(c *rtCtr) bool {
	pod := &e.m.pods[c.Pod].Spec
	if v, ok := effBool(pod, "prefer-reserved-cpus", c.Spec.Name); ok && v {
		return true
	}
	return nsReserved(pod.Namespace, e.taCfg().ReservedPoolNamespaces)
}

// taAvailable returns the configured available CPUs per the documentation:
// the given cpuset, else all online CPUs.
func (e *executor) taAvailable() vfkit.IDSet {
	if a, ok := e.taCfg().AvailableResources[polcfg.CPU]; ok && strings.HasPrefix(string(a), "cpuset:") {
		s, _ := vfkit.ParseIDSet(strings.TrimPrefix(string(a), "cpuset:"))
		return s
	}
	return e.h.topo.OnlineCPUs()
}

// reconstructed request, as documented in C20 (shares -> milli-CPU, rounded)
func reqFromShares(milli int64) int64 {
	s := vfkit.RefMilliCPUToShares(milli)
	if s == vfkit.RefMinShares {
		return 0
	}
	return (s*1000*2 + 1024) / (2 * 1024)
}

// refExclusive is the documented eligibility table ("Policy CPU Allocation
// Preferences"). It returns the acceptable numbers of exclusive CPUs.
func (e *executor) refExclusive(c *rtCtr) []int {
	pod := &e.m.pods[c.Pod].Spec
	if e.cpuPreserved(c) {
		return []int{0}
	}
	if v, ok := effBool(pod, "prefer-reserved-cpus", c.Spec.Name); ok && v {
		return []int{0}
	}
	_, explicit := effBool(pod, "prefer-reserved-cpus", c.Spec.Name)
	if nsReserved(pod.Namespace, e.taCfg().ReservedPoolNamespaces) && !explicit {
		return []int{0}
	}
	if pod.QoS != "guaranteed" {
		return []int{0}
	}
	m := reqFromShares(c.ReqMilli)
	cores, frac := int(m/1000), m%1000
	annShared, annotated := effBool(pod, "prefer-shared-cpus", c.Spec.Name)
	preferShared := annShared
	cfgShared := e.taCfg().PreferShared != nil && *e.taCfg().PreferShared
	if !annotated {
		preferShared = cfgShared
	}
	switch {
	case cores == 0:
		return []int{0}
	case cores == 1:
		if preferShared {
			return []int{0}
		}
		return []int{1}
	default:
		if frac > 0 {
			if annotated && !annShared {
				return []int{cores}
			}
			return []int{0}
		}
		if annotated {
			if annShared {
				return []int{0}
			}
			return []int{cores}
		}
		if cfgShared {
			// the documentation names only the annotation as opt-out for
			// multi-core requests; the configured default is accepted either way
			return []int{0, cores}
		}
		return []int{cores}
	}
}

// ---------------------------------------------------------------------------
// view of the policy
// ---------------------------------------------------------------------------

type taView struct {
	snap   *topologyaware.VerifSnapshot
	pools  map[string]*topologyaware.VerifPool
	grants map[string]*topologyaware.VerifGrant
	zones  []*policyapi.TopologyZone
	alloc  *libmem.Allocator
}

func (e *executor) taView() *taView {
	v := &taView{pools: map[string]*topologyaware.VerifPool{}, grants: map[string]*topologyaware.VerifGrant{}}
	v.snap = topologyaware.VerifSnap(e.h.backend)
	if v.snap != nil {
		for i := range v.snap.Pools {
			v.pools[v.snap.Pools[i].Name] = &v.snap.Pools[i]
		}
		for i := range v.snap.Grants {
			v.grants[v.snap.Grants[i].Container] = &v.snap.Grants[i]
		}
	}
	v.zones = e.h.m.policy.GetTopologyZones()
	v.alloc = topologyaware.VerifAllocator(e.h.backend)
	return v
}

func set(s string) vfkit.IDSet { return vfkit.MustParseIDSet(s) }

func (v *taView) subtree(name string) []string {
	out := []string{name}
	for _, p := range v.snap.Pools {
		if p.Parent == name {
			out = append(out, v.subtree(p.Name)...)
		}
	}
	return out
}

// cutByAncestorGrant tells whether an exclusive grant held at a strict ancestor
// of the pool took CPUs out of this pool's own sharable set.
func (v *taView) cutByAncestorGrant(pool string) bool {
	anc := map[string]bool{}
	for p := v.pools[pool]; p != nil && p.Parent != ""; p = v.pools[p.Parent] {
		anc[p.Parent] = true
	}
	total := set(v.pools[pool].TotalSharable)
	for _, g := range v.snap.Grants {
		if anc[g.Pool] && !set(g.Exclusive).Intersect(total).Empty() {
			return true
		}
	}
	return false
}

// ancestorCutOversubscription tells whether some pool is oversubscribed in its
// subtree because an exclusive grant at a strict ancestor took CPUs out of it.
func (v *taView) ancestorCutOversubscription() bool {
	for _, p := range v.snap.Pools {
		sub := map[string]bool{}
		for _, n := range v.subtree(p.Name) {
			sub[n] = true
		}
		promised := 0
		for _, g := range v.snap.Grants {
			if sub[g.Pool] && g.CPUType == "normal" {
				promised += g.Portion
			}
		}
		if promised > 1000*set(p.FreeSharable).Size() && v.cutByAncestorGrant(p.Name) {
			return true
		}
	}
	return false
}

// pinningMatchesGrant tells whether the cpuset the runtime holds for a
// container is what its grant implies (hidden hyperthreads: a subset).
func (v *taView) pinningMatchesGrant(e *executor, c *rtCtr) bool {
	g, ok := v.grants[c.ID]
	if !ok {
		return false
	}
	want := vfkit.IDSet{}
	switch g.CPUType {
	case "normal":
		want = set(g.Exclusive)
		if g.Portion > 0 || want.Empty() {
			want = want.Union(set(v.pools[g.Pool].FreeSharable))
		}
	case "reserved":
		want = set(v.pools[g.Pool].TotalReserved)
	default:
		return true
	}
	got := set(c.Res.Cpus)
	if hide, _ := effBool(&e.m.pods[c.Pod].Spec, "hide-hyperthreads", c.Spec.Name); hide {
		return got.SubsetOf(want)
	}
	return got.Equal(want)
}

// ---------------------------------------------------------------------------
// C01: exclusivity
// ---------------------------------------------------------------------------

func checkTAExclusive(e *executor, r *stepResult) *vfkit.Violation {
	const P = "C01"
	v := e.taView()
	if v.snap == nil {
		return nil
	}
	// remember in which kind of request a live container lost its grant
	if e.scratch["lostGrant"] == nil {
		e.scratch["lostGrant"] = map[string]string{}
		e.scratch["hadGrant"] = map[string]bool{}
	}
	lost, had := e.scratch["lostGrant"].(map[string]string), e.scratch["hadGrant"].(map[string]bool)
	for _, c := range e.m.live() {
		if _, ok := v.grants[c.ID]; ok {
			had[c.ID] = true
			delete(lost, c.ID)
		} else if had[c.ID] {
			had[c.ID] = false
			lost[c.ID] = r.lostBy(c.ID)
		} else if r.Op.Kind == "phase" && lost[c.ID] == "" {
			// created and stripped of its grant within one concurrent phase
			lost[c.ID] = r.lostBy(c.ID)
		}
	}
	// with pinCPU off the plugin pins nothing: cpusets the runtime still holds
	// from an earlier configuration are not the plugin's current instruction
	pinning := e.taCfg().PinCPU
	live := e.m.live()
	excl := map[string]vfkit.IDSet{}
	for _, c := range live {
		if g, ok := v.grants[c.ID]; ok {
			excl[c.ID] = set(g.Exclusive)
		}
	}
	ids := []string{}
	for id := range excl {
		ids = append(ids, id)
	}
	sort.Strings(ids)
	// (a) pairwise disjoint
	for i, a := range ids {
		for _, b := range ids[i+1:] {
			if x := excl[a].Intersect(excl[b]); !x.Empty() {
				return viol(P, "exclusive CPUs pairwise disjoint", "exclusive-overlap",
					"after %s: %s and %s both hold CPUs %s exclusively", r.Desc, a, b, x)
			}
		}
	}
	// (b) in no other container's told cpuset, in no pool's shared set
	for _, a := range ids {
		if excl[a].Empty() {
			continue
		}
		for _, c := range live {
			if c.ID == a || len(c.ToldCpus) == 0 || !pinning {
				continue
			}
			if x := excl[a].Intersect(set(c.Res.Cpus)); !x.Empty() {
				sig := "exclusive-in-other-containers-cpuset"
				if _, has := v.grants[c.ID]; !has {
					sig = "exclusive-in-cpuset-of-container-without-grant"
					if h := lost[c.ID]; h == "Synchronize" || h == "updateConfig" {
						sig = "exclusive-in-cpuset-of-container-that-could-not-be-reallocated-by-" + h
					} else if h == "UpdateContainer" {
						sig = "exclusive-in-cpuset-of-container-whose-failed-update-could-not-be-rolled-back"
					}
				} else if g := v.grants[c.ID]; g.CPUType == "normal" && set(g.Exclusive).Empty() && set(v.pools[g.Pool].FreeSharable).Empty() {
					sig = "stale-cpuset-of-shared-container-whose-pool-has-no-shared-cpus-left"
				} else if e.rejectedReconfigs > 0 && !v.pinningMatchesGrant(e, c) {
					sig = "pinning-left-over-from-a-rejected-reconfiguration"
				}
				return viol(P, "exclusive CPUs occur in no other container's allowed CPUs", sig,
					"after %s: CPUs %s exclusive to %s are in the cpuset %q the runtime has for %s", r.Desc, x, a, c.Res.Cpus, c.ID)
			}
			// a decision that has not been delivered yet (left pending by a failed request)
			// is still the plugin's decision: the next reply that carries updates sends it
			cc, ok := e.h.m.cache.LookupContainer(c.ID)
			if !ok || sameSet(cc.GetCpusetCpus(), c.Res.Cpus) {
				continue
			}
			if x := excl[a].Intersect(set(cc.GetCpusetCpus())); !x.Empty() {
				g, has := v.grants[c.ID]
				if !has || (g.CPUType == "normal" && set(g.Exclusive).Empty() && set(v.pools[g.Pool].FreeSharable).Empty()) ||
					(e.rejectedReconfigs > 0 && !v.pinningMatchesGrant(e, c)) {
					continue // (the listed findings above, reported from the runtime's view once delivered)
				}
				return viol(P, "exclusive CPUs occur in no other container's allowed CPUs", "exclusive-in-other-containers-undelivered-cpuset",
					"after %s: CPUs %s exclusive to %s are in the cpuset %q the cache holds (undelivered) for %s", r.Desc, x, a, cc.GetCpusetCpus(), c.ID)
			}
		}
		for _, p := range v.snap.Pools {
			if x := excl[a].Intersect(set(p.FreeSharable)); !x.Empty() {
				return viol(P, "exclusive CPUs occur in no pool's shared set", "exclusive-in-shared-set",
					"after %s: CPUs %s exclusive to %s are in the shared set %s of pool %s", r.Desc, x, a, p.FreeSharable, p.Name)
			}
		}
		for _, z := range v.zones {
			for _, at := range z.Attributes {
				if at.Name == policyapi.SharedCPUsAttribute {
					if x := excl[a].Intersect(set(at.Value)); !x.Empty() {
						return viol(P, "exclusive CPUs occur in no pool's shared set", "exclusive-in-shared-set",
							"after %s: CPUs %s exclusive to %s are in the advertised shared cpuset %s of %s", r.Desc, x, a, at.Value, z.Name)
					}
				}
			}
		}
	}
	// (c) pinned inside available, (d) reserved only for reserved-class, never mixed
	avail := e.taAvailable()
	reserved := set(v.snap.Reserved)
	for _, c := range live {
		if len(c.ToldCpus) == 0 || !pinning || e.cpuPreserved(c) {
			continue
		}
		cpus := set(c.Res.Cpus)
		stale := false
		if g, ok := v.grants[c.ID]; ok && g.CPUType == "normal" && set(g.Exclusive).Empty() && set(v.pools[g.Pool].FreeSharable).Empty() {
			stale = true // the policy had nothing to pin it to; the runtime keeps an outdated cpuset
		}
		staleSig := func(sig string) string {
			if stale {
				return "stale-cpuset-of-shared-container-whose-pool-has-no-shared-cpus-left"
			}
			if _, has := v.grants[c.ID]; !has {
				switch lost[c.ID] {
				case "Synchronize", "updateConfig":
					return "exclusive-in-cpuset-of-container-that-could-not-be-reallocated-by-" + lost[c.ID]
				case "UpdateContainer":
					return "exclusive-in-cpuset-of-container-whose-failed-update-could-not-be-rolled-back"
				}
			}
			return sig
		}
		if !cpus.SubsetOf(avail) {
			return viol(P, "every pinned CPU lies inside the available CPUs", staleSig("pinned-outside-available"),
				"after %s: %s pinned to %s, available %s", r.Desc, c.ID, cpus, avail)
		}
		if x := cpus.Intersect(reserved); !x.Empty() {
			if !e.reservedClass(c) {
				sig := staleSig("reserved-cpus-to-ordinary-container")
				// reserved-class under an earlier configuration it was (re-)allocated under?
				for _, old := range append([]*vhConfig{c.AllocCfg}, c.LaterCfgs...) {
					if old != nil && old != e.cfg && e.withCfg(old, func() bool { return e.reservedClass(c) }) {
						sig = "reserved-grant-reinstated-verbatim-after-reconfigure-dropped-the-reserved-class"
					}
				}
				return viol(P, "reserved CPUs only for reserved-class containers", sig,
					"after %s: %s (ns %s) pinned to %s which contains reserved CPUs %s", r.Desc, c.ID, e.m.pods[c.Pod].Spec.Namespace, cpus, x)
			}
			if !cpus.SubsetOf(reserved) {
				return viol(P, "reserved CPUs never mixed with non-reserved ones", staleSig("reserved-mixed"),
					"after %s: %s pinned to %s, reserved %s", r.Desc, c.ID, cpus, reserved)
			}
		}
	}
	return nil
}

// ---------------------------------------------------------------------------
// C03: capacity and eligibility
// ---------------------------------------------------------------------------

func checkTACapacity(e *executor, r *stepResult) *vfkit.Violation {
	const P = "C03"
	v := e.taView()
	if v.snap == nil {
		return nil
	}
	// (a) zones: cpu Available never negative
	for _, z := range v.zones {
		for _, res := range z.Resources {
			if res.Name == policyapi.CPUResource && res.Available.MilliValue() < 0 {
				sig := "negative-available-cpu"
				if v.ancestorCutOversubscription() {
					sig = "pool-oversubscribed-by-exclusive-grant-taken-at-an-ancestor-pool"
				}
				return viol(P, "advertised available CPU never negative", sig,
					"after %s: pool %s advertises %dm available; pools %+v grants %+v", r.Desc, z.Name, res.Available.MilliValue(), v.snap.Pools, v.snap.Grants)
			}
		}
	}
	// ledger + subtree capacity
	isolatedHW := e.h.topo.IsolatedCPUs()
	for _, p := range v.snap.Pools {
		// shared capacity is counted per CPU of the shared set: a kernel-isolated CPU
		// (handed out whole only, never shared) in it is capacity that does not exist
		if x := set(p.FreeSharable).Intersect(isolatedHW); !x.Empty() {
			return viol(P, "shared capacity is 1000 mCPU per CPU really left in the shared set", "isolated-cpu-in-shared-set",
				"after %s: pool %s has kernel-isolated CPUs %s in its shared set %s", r.Desc, p.Name, x, p.FreeSharable)
		}
		localShared, localReserved := 0, 0
		for _, g := range v.snap.Grants {
			if g.Pool != p.Name {
				continue
			}
			switch g.CPUType {
			case "normal":
				localShared += g.Portion
			case "reserved":
				localReserved += g.Portion
			}
		}
		if localShared != p.GrantedShared || localReserved != p.GrantedReserved {
			return viol(P, "granted capacity ledger equals the sum of grant portions", "ledger-mismatch",
				"after %s: pool %s ledger shared=%d reserved=%d, grants sum shared=%d reserved=%d", r.Desc, p.Name, p.GrantedShared, p.GrantedReserved, localShared, localReserved)
		}
		sub := map[string]bool{}
		for _, n := range v.subtree(p.Name) {
			sub[n] = true
		}
		subShared, subReserved := 0, 0
		for _, g := range v.snap.Grants {
			if !sub[g.Pool] {
				continue
			}
			switch g.CPUType {
			case "normal":
				subShared += g.Portion
			case "reserved":
				subReserved += g.Portion
			}
		}
		if capa := 1000 * set(p.FreeSharable).Size(); subShared > capa {
			sig := "shared-capacity-oversubscribed"
			if v.ancestorCutOversubscription() {
				sig = "pool-oversubscribed-by-exclusive-grant-taken-at-an-ancestor-pool"
			}
			return viol(P, "shared capacity promised in a subtree <= 1000m per CPU left in the pool's shared set", sig,
				"after %s: pool %s and descendants promised %dm shared, shared set %s holds %dm", r.Desc, p.Name, subShared, p.FreeSharable, capa)
		}
		if capa := 1000 * set(p.TotalReserved).Size(); subReserved > capa {
			return viol(P, "reserved capacity promised in a subtree <= 1000m per reserved CPU", "reserved-capacity-oversubscribed",
				"after %s: pool %s and descendants promised %dm reserved, reserved set %s", r.Desc, p.Name, subReserved, p.TotalReserved)
		}
	}
	cfg := e.taCfg()
	for _, c := range e.m.live() {
		g, ok := v.grants[c.ID]
		if !ok {
			continue
		}
		preserved := e.cpuPreserved(c)
		// (b) CPU-pinned containers have a non-empty allowed set
		if cfg.PinCPU && !preserved {
			if len(c.ToldCpus) == 0 || set(c.Res.Cpus).Empty() {
				sig := "pinned-container-without-cpuset"
				if g.CPUType == "normal" && set(g.Exclusive).Empty() && set(v.pools[g.Pool].FreeSharable).Empty() {
					sig = "shared-container-in-pool-without-shared-cpus"
				}
				return viol(P, "every CPU-pinned container has a non-empty allowed CPU set", sig,
					"after %s: %s (grant %+v) has been told cpuset %q", r.Desc, c.ID, *g, c.Res.Cpus)
			}
		}
		// (c) eligibility
		if !preserved {
			want := e.refExclusive(c)
			if c.AllocCfg != nil && (c.AllocCfg != e.cfg || len(c.LaterCfgs) > 0) {
				// grants are reinstated verbatim across a reconfiguration: the
				// decision was taken under the configuration of that time (C13
				// judges the new configuration)
				saved := e.cfg
				for _, cfg := range append([]*vhConfig{c.AllocCfg}, c.LaterCfgs...) {
					e.cfg = cfg
					want = append(want, e.refExclusive(c)...)
				}
				e.cfg = saved
			}
			got := set(g.Exclusive).Size()
			okCnt := false
			for _, w := range want {
				if w == got {
					okCnt = true
				}
			}
			sigE := "eligibility-mismatch"
			if !okCnt && len(c.FailedReqs) > 0 {
				saved := c.ReqMilli
				for _, fr := range c.FailedReqs {
					if fr == saved {
						// the request in force was refused once: the retry that "succeeded"
						// was short-circuited as identical to the stored, refused requirements
						sigE = "grant-follows-the-request-of-a-refused-UpdateContainer"
					}
					c.ReqMilli = fr
					for _, w := range e.refExclusive(c) {
						if w == got {
							sigE = "grant-follows-the-request-of-a-refused-UpdateContainer"
						}
					}
				}
				c.ReqMilli = saved
			}
			if !okCnt {
				return viol(P, "exclusive CPU count follows the documented eligibility rules", sigE,
					"after %s: %s (ns %s, %s, request %dm, annotations %v) holds %d exclusive CPUs (%s), documented %v",
					r.Desc, c.ID, e.m.pods[c.Pod].Spec.Namespace, e.m.pods[c.Pod].Spec.QoS, c.ReqMilli, e.m.pods[c.Pod].Spec.Annotations, got, g.Exclusive, want)
			}
			iso := set(g.Isolated)
			if !iso.Empty() {
				if !iso.Equal(set(g.Exclusive)) {
					return viol(P, "isolated CPUs only when all exclusive CPUs can be isolated", "partially-isolated",
						"after %s: %s exclusive %s, isolated %s", r.Desc, c.ID, g.Exclusive, g.Isolated)
				}
				if want, ok := effBool(&e.m.pods[c.Pod].Spec, "prefer-isolated-cpus", c.Spec.Name); ok && !want {
					return viol(P, "isolated CPUs not given to containers that opted out", "isolated-despite-opt-out",
						"after %s: %s", r.Desc, c.ID)
				}
			}
		}
		// (d) cpu.shares = kubelet encoding of the granted capacity
		if cfg.PinCPU && !preserved && !c.Dirty["shares"] {
			milli := int64(g.Portion)
			if milli == 0 {
				milli = 1000 * int64(set(g.Exclusive).Size())
			}
			if want := uint64(vfkit.RefMilliCPUToShares(milli)); c.Res.Shares != want {
				return viol(P, "cpu.shares equals the kubelet encoding of the granted capacity", "shares-mismatch",
					"after %s: %s granted %dm (+%d exclusive): runtime has shares %d, expected %d", r.Desc, c.ID, g.Portion, set(g.Exclusive).Size(), c.Res.Shares, want)
			}
		}
	}
	return nil
}

// ---------------------------------------------------------------------------
// C04: memory pinning (shared with balloons through memView)
// ---------------------------------------------------------------------------

type memView struct {
	alloc      *libmem.Allocator
	applies    func(c *rtCtr) bool // memory pinning applies to this container
	afterEvent bool
}

func checkMemory(e *executor, r *stepResult, mv *memView) *vfkit.Violation {
	const P = "C04"
	if mv.alloc == nil {
		return nil
	}
	topo := e.h.topo
	memNodes := topo.MemNodes()
	for _, c := range e.m.live() {
		if !mv.applies(c) {
			continue
		}
		zone, ok := mv.alloc.AssignedZone(c.ID)
		if !ok {
			// no allocation (it failed and the policy fell back to something):
			// whatever the policy told must still be a set the kernel accepts
			if len(c.ToldMems) > 0 {
				if got := set(c.Res.Mems); !got.Empty() && !got.SubsetOf(memNodes) {
					return viol(P, "memory set consists of existing nodes that have memory", "mems-without-memory:unallocated",
						"after %s: %s (no memory allocation) told mems %s, nodes with memory %s", r.Desc, c.ID, got, memNodes)
				}
			}
			continue
		}
		want := vfkit.NewIDSet(zone.Slice()...)
		if len(c.ToldMems) == 0 {
			return viol(P, "told memory nodes equal the allocator's zone", "mems-never-told",
				"after %s: %s has zone %s but was never told a memory set", r.Desc, c.ID, want)
		}
		got := set(c.Res.Mems)
		if got.Empty() {
			return viol(P, "memory set non-empty", "mems-empty", "after %s: %s", r.Desc, c.ID)
		}
		if !got.SubsetOf(memNodes) {
			return viol(P, "memory set consists of existing nodes that have memory", "mems-without-memory",
				"after %s: %s told mems %s, nodes with memory %s", r.Desc, c.ID, got, memNodes)
		}
		if !got.Equal(want) && e.eventPending {
			continue // changed by a policy event; delivered with the next reply that can carry updates
		}
		if !got.Equal(want) {
			sig := "mems-differ-from-assigned-zone"
			if r.Err != nil || e.failedPending {
				sig += ":after-failed-request"
			} else if e.rejectedReconfigs > 0 && e.h.policy == polTA {
				sig += ":after-rejected-reconfiguration"
			} else if want.SubsetOf(got) {
				sig = "mems-wider-than-assigned-zone"
			} else if got.SubsetOf(want) {
				sig = "mems-narrower-than-assigned-zone(zone-widened-but-not-delivered)"
			}
			return viol(P, "told memory nodes equal the allocator's zone", sig,
				"after %s: %s told mems %s, allocator zone %s", r.Desc, c.ID, got, want)
		}
	}
	// every node set with allocations confined to it within capacity (after successful requests)
	if r.Err != nil {
		return nil
	}
	type rq struct {
		zone uint64
		size int64
		id   string
	}
	reqs := []rq{}
	mv.alloc.ForeachRequest(nil, func(q *libmem.Request) bool {
		reqs = append(reqs, rq{uint64(q.Zone()), q.Size(), q.ID()})
		return true
	})
	nodes := memNodes.Sorted()
	if len(nodes) > 10 {
		nodes = nodes[:10]
	}
	for s := 1; s < 1<<uint(len(nodes)); s++ {
		var mask uint64
		var capa int64
		for i, n := range nodes {
			if s&(1<<uint(i)) != 0 {
				mask |= 1 << uint(n)
				capa += topo.NodeCapacityBytes(n)
			}
		}
		var used int64
		isZone := false
		for _, q := range reqs {
			if q.zone&^mask == 0 {
				used += q.size
			}
			if q.zone == mask {
				isZone = true
			}
		}
		if used > capa {
			sig := "overcommit-of-an-assigned-zone"
			if !isZone {
				sig = "overcommit-on-union-of-zones-that-is-not-itself-a-zone"
			}
			return viol(P, "allocations confined to a node set do not exceed its capacity", sig,
				"after %s: node set %b holds %d > capacity %d (requests %v)", r.Desc, mask, used, capa, reqs)
		}
	}
	return nil
}

func checkTAMemory(e *executor, r *stepResult) *vfkit.Violation {
	cfg := e.taCfg()
	return checkMemory(e, r, &memView{
		alloc:   topologyaware.VerifAllocator(e.h.backend),
		applies: func(c *rtCtr) bool { return cfg.PinMemory && !e.memPreserved(c) },
	})
}

// ---------------------------------------------------------------------------
// C09 (during the history): nothing is held by a container that is not live
// ---------------------------------------------------------------------------

func checkTANoStaleHolders(e *executor, r *stepResult) *vfkit.Violation {
	const P = "C09"
	v := e.taView()
	if v.snap == nil {
		return nil
	}
	for id := range v.grants {
		c, ok := e.m.ctrs[id]
		if !ok || (c.State != stCreated && c.State != stRunning) {
			st := "unknown"
			if ok {
				st = c.State
			}
			sig := "grant-held-by-" + st + "-container"
			return viol(P, "a stopped or removed container never holds or regains resources", sig,
				"after %s: grant %+v for container in state %s", r.Desc, *v.grants[id], st)
		}
	}
	if v.alloc != nil {
		var bad string
		v.alloc.ForeachRequest(nil, func(q *libmem.Request) bool {
			c, ok := e.m.ctrs[q.ID()]
			if !ok || (c.State != stCreated && c.State != stRunning) {
				bad = q.ID()
				return false
			}
			return true
		})
		if bad != "" {
			return viol(P, "a stopped or removed container never holds memory", "memory-held-by-dead-container",
				"after %s: allocator still holds a request for %s", r.Desc, bad)
		}
	}
	return nil
}

// taQuiescent summarises the state that must be restored after a drain.
func (e *executor) taQuiescent() map[string]string {
	out := map[string]string{}
	v := e.taView()
	if v.snap == nil {
		return out
	}
	for _, p := range v.snap.Pools {
		out["pool:"+p.Name] = fmt.Sprintf("iso=%s res=%s shr=%s gs=%d gr=%d", p.FreeIsolated, p.FreeReserved, p.FreeSharable, p.GrantedShared, p.GrantedReserved)
	}
	for _, z := range v.zones {
		for _, res := range z.Resources {
			out["zone:"+z.Name+":"+res.Name] = res.Available.String()
		}
	}
	out["grants"] = fmt.Sprint(len(v.snap.Grants))
	n := 0
	if v.alloc != nil {
		v.alloc.ForeachRequest(nil, func(*libmem.Request) bool { n++; return true })
	}
	out["memory-requests"] = fmt.Sprint(n)
	return out
}

func traceWhiteBox(e *executor) {
	if e.h.policy != polTA {
		traceBalloons(e)
		return
	}
	v := e.taView()
	if v.snap == nil {
		return
	}
	for _, g := range v.snap.Grants {
		fmt.Printf("TRACE    grant %+v\n", g)
	}
	for _, p := range v.snap.Pools {
		fmt.Printf("TRACE    pool %s free iso=%s res=%s shr=%s granted=%d/%d\n", p.Name, p.FreeIsolated, p.FreeReserved, p.FreeSharable, p.GrantedShared, p.GrantedReserved)
	}
}

//go:build verif

package resmgr

import (
	"fmt"
	"os"
	"sort"
	"strings"

	"github.com/containers/nri-plugins/pkg/zzverif/vfkit"
)

func viol(prop, clause, sig, f string, args ...any) *vfkit.Violation {
	return &vfkit.Violation{Property: prop, Clause: clause, Signature: sig, Detail: fmt.Sprintf(f, args...)}
}

// sameSet compares two Linux list strings as sets.
func sameSet(a, b string) bool {
	sa, e1 := vfkit.ParseIDSet(a)
	sb, e2 := vfkit.ParseIDSet(b)
	if e1 != nil || e2 != nil {
		return a == b
	}
	return sa.Equal(sb)
}

// checkRuntimeView is the C05 oracle: after every request, what the runtime
// has been told equals what the cache records, nothing stays pending, replies
// are well-formed.
func checkRuntimeView(e *executor, r *stepResult) *vfkit.Violation {
	const P = "C05"
	if len(r.BadTargets) > 0 {
		sort.Strings(r.BadTargets)
		sig := "update-for-dead-container"
		allTainted := true
		for _, b := range r.BadTargets {
			if id := strings.SplitN(b, "(", 2)[0]; !e.tainted[id] {
				allTainted = false
			}
		}
		if e.failedPendingBefore || allTainted {
			sig += ":after-failed-request"
		}
		return viol(P, "no update addresses a container the runtime has stopped or removed", sig,
			"%s: updates for %v", r.Desc, r.BadTargets)
	}
	if len(r.DupTargets) > 0 {
		return viol(P, "at most one update per container in a reply", "duplicate-update", "%s: %v", r.Desc, r.DupTargets)
	}
	cch := e.h.m.cache
	pendingIDs := map[string]bool{}
	for _, pc := range cch.GetPendingContainers() {
		pendingIDs[pc.GetID()] = true
	}
	for _, c := range e.m.live() {
		cc, ok := cch.LookupContainer(c.ID)
		if !ok {
			return viol(P, "live containers are cached", "live-container-not-cached", "%s: %s not in cache", r.Desc, c.ID)
		}
		type fld struct {
			name     string
			rt, cach string
			set      bool
		}
		fields := []fld{
			{"cpuset.cpus", c.Res.Cpus, cc.GetCpusetCpus(), true},
			{"cpuset.mems", c.Res.Mems, cc.GetCpusetMems(), true},
			{"shares", fmt.Sprint(c.Res.Shares), fmt.Sprint(cc.GetCPUShares()), false},
			{"quota", fmt.Sprint(c.Res.Quota), fmt.Sprint(cc.GetCPUQuota()), false},
			{"period", fmt.Sprint(c.Res.Period), fmt.Sprint(cc.GetCPUPeriod()), false},
			{"limit", fmt.Sprint(c.Res.Limit), fmt.Sprint(cc.GetMemoryLimit()), false},
			{"swap", fmt.Sprint(c.Res.Swap), fmt.Sprint(cc.GetMemorySwap()), false},
		}
		for _, f := range fields {
			if c.Dirty[f.name] {
				continue
			}
			equal := f.rt == f.cach
			if f.set {
				equal = sameSet(f.rt, f.cach)
			}
			if !equal {
				sig := "runtime-differs-from-cache:" + f.name
				if f.set && f.cach == "" && f.rt != "" {
					// the cache was set to the empty string, which NRI cannot convey
					sig = "cache-emptied-but-runtime-keeps:" + f.name
				}
				if (r.Err != nil || r.CfgError != nil || e.failedPending) && !pendingIDs[c.ID] {
					// what a failed request could not deliver must at least stay queued
					// for the next reply; a difference without a pending mark is lost
					sig += ":undelivered-and-not-pending"
				} else if r.Err != nil || r.CfgError != nil || e.failedPending {
					sig += ":after-failed-request:" + e.cfg.policyName() + ":" + e.failedKind(c.ID)
					if f.name == "cpuset.cpus" && e.failedKind(c.ID) == "CreateContainer(create)" && blnOnlyOutOfScopeSharingDropped(e, c.ID, f.rt, f.cach) {
						sig += ":out-of-scope-sharing-dropped"
					}
					if os.Getenv("VERIF_DEBUG_CLASSES") != "" {
						fmt.Fprintf(os.Stderr, "CLASS %s %s %s\n", sig, e.cfg.policyName(), e.failedKind(c.ID))
					}
				}
				return viol(P, "runtime view equals cache view", sig,
					"after %s: container %s %s: runtime has %q, cache has %q", r.Desc, c.ID, f.name, f.rt, f.cach)
			}
		}
	}
	// nothing stays pending for a live container
	pend := []string{}
	for _, pc := range cch.GetPendingContainers() {
		if mc, ok := e.m.ctrs[pc.GetID()]; ok && (mc.State == stCreated || mc.State == stRunning) {
			pend = append(pend, pc.GetID())
		}
	}
	if len(pend) > 0 {
		sort.Strings(pend)
		sig := "pending-after-reply"
		if r.Err != nil || r.CfgError != nil || e.failedPending {
			sig = "pending-after-failed-request"
		}
		return viol(P, "no change stays pending after the reply", sig, "after %s (err=%v): pending %v", r.Desc, r.Err, pend)
	}
	return nil
}

// blnOnlyOutOfScopeSharingDropped: balloons keeps an idle CPU shared with a
// balloon after the balloon shrank out of that CPU's sharing scope; the next
// event that touches the CPU (even one that is undone, as in a failed
// creation) drops it. Such a correction is told apart from a real loss: true
// when the cache cpuset differs from the runtime's only by CPUs that are not
// idle CPUs inside the sharing scope of the container's balloon.
func blnOnlyOutOfScopeSharingDropped(e *executor, id, rt, cached string) bool {
	if e.h.policy != polBalloons {
		return false
	}
	v := e.blnView()
	bl := v.byCtr[id]
	if len(bl) != 1 {
		return false
	}
	b := bl[0]
	d := v.defs[b.Def]
	if d == nil || d.ShareIdle == "" {
		return false
	}
	rtSet, cacheSet := set(rt), set(cached)
	if !cacheSet.SubsetOf(rtSet) {
		return false
	}
	all := vfkit.IDSet{}
	for _, o := range v.snap.Balloons {
		all = all.Union(set(o.Cpus))
	}
	idle := e.blnAvailable().Minus(all)
	inScope := scopeCPUs(e.h.topo, d.ShareIdle, set(b.Cpus)).Intersect(idle).Minus(e.h.topo.IsolatedCPUs())
	return rtSet.Minus(cacheSet).Intersect(inScope).Empty()
}

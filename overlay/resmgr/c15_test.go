//go:build verif && verifwb

package resmgr

import (
	"testing"

	"pgregory.net/rapid"

	"github.com/containers/nri-plugins/pkg/zzverif/vfkit"
)

// after a concurrent phase every invariant library of the policy must hold
func phaseInvs(policy string) []invFn {
	var libs []invFn
	if policy == polTA {
		libs = []invFn{checkTAExclusive, checkTACapacity, checkTAMemory, checkTANoStaleHolders, checkRuntimeView,
			func(e *executor, r *stepResult) *vfkit.Violation {
				// a failed UpdateContainer, Synchronize or reconfiguration may leave a container
				// without allocation in sequential runs, too: only phases in which every
				// request succeeded must leave every live container with a grant
				pr, _ := e.scratch["phase"].(*phaseResult)
				if r.Op.Kind != "phase" || pr == nil || pr.failed > 0 || pr.kinds["reconfig"] || pr.kinds["sync"] || e.failedPendingBefore {
					return nil
				}
				// (a container that lost its grant in an earlier request of the history - a
				// failed update, Synchronize or reconfiguration - is not this phase's doing)
				lost, _ := e.scratch["lostGrant"].(map[string]string)
				v := e.taView()
				for _, c := range e.m.live() {
					if _, ok := v.grants[c.ID]; !ok && (lost[c.ID] == "" || lost[c.ID] == "concurrent-phase") {
						return checkTAAllLiveHoldGrant(e, r)
					}
				}
				return nil
			}}
	} else {
		libs = []invFn{checkBalloons, checkBalloonsMemory, checkBalloonsNoStaleHolders, checkRuntimeView}
	}
	out := []invFn{checkPhase, checkNoPushInsideRequest, checkNoPushUnderPipelineLock}
	for _, lib := range libs {
		lib := lib
		out = append(out, func(e *executor, r *stepResult) *vfkit.Violation {
			v := lib(e, r)
			if v == nil || !e.hadPhase() || vfkit.IsKnown(v) {
				// (a listed finding of the sequential code is not an effect of concurrency:
				// it is counted under its own property and ends this history)
				return v
			}
			return viol(c15, "all state invariants hold after concurrent delivery: "+v.Clause, "after-concurrent-phase:"+v.Property+":"+v.Signature, "%s", v.Detail)
		})
	}
	return out
}

var c15TA = &propTest{prop: c15, unit: "ta-concurrent",
	gen: func(t *rapid.T) *hcCase {
		o := genOpts{Policy: polTA, MinOps: 3, MaxOps: 14, Reconfig: true, ExclHeavy: true}
		c := genTACase(t, o)
		return withPhases(t, c, o, nil, func(t *rapid.T) *vhConfig {
			if rapid.IntRange(0, 2).Draw(t, "sameCfg") == 0 {
				return c.Config.clone()
			}
			return &vhConfig{TA: genTAConfig(t, c.Topo, o)}
		})
	},
	observe: c15Observe}

var c15Bln = &propTest{prop: c15, unit: "balloons-concurrent",
	gen: func(t *rapid.T) *hcCase {
		o := genOpts{Policy: polBalloons, MinOps: 3, MaxOps: 14, Reconfig: true, FillPools: true}
		c := genBalloonsCase(t, o)
		return withPhases(t, c, o, blnAnnotations, func(t *rapid.T) *vhConfig {
			if rapid.IntRange(0, 2).Draw(t, "sameCfg") == 0 {
				return c.Config.clone()
			}
			return &vhConfig{Balloons: genBalloonsConfig(t, c.Topo, o)}
		})
	},
	observe: c15Observe}

func init() {
	c15TA.invs = phaseInvs(polTA)
	c15Bln.invs = phaseInvs(polBalloons)
}

func TestVerifC15TA(t *testing.T)             { c15TA.run(t) }
func TestVerifC15TAReplay(t *testing.T)       { c15TA.replay(t) }
func TestVerifC15Balloons(t *testing.T)       { c15Bln.run(t) }
func TestVerifC15BalloonsReplay(t *testing.T) { c15Bln.replay(t) }

// checkNoPushInsideRequest: a handler that sends unsolicited updates to the
// runtime while the runtime is still waiting for its reply blocks on the lock
// the NRI adaptation holds for the duration of that very request; the request
// ends only when the runtime times it out and disconnects the plugin.
func checkNoPushInsideRequest(e *executor, r *stepResult) *vfkit.Violation {
	inside := e.h.stub.takePushedInside()
	if len(inside) == 0 {
		return nil
	}
	return viol(c15, "no request deadlocks", "unsolicited-update-inside-request:"+r.Handler,
		"%s: the handler called stub.UpdateContainers before returning (%v); the runtime serves that call under the lock it holds while this request is outstanding", r.Desc, inside)
}

// checkNoPushUnderPipelineLock: unsolicited updates sent while the sender
// holds the resource manager lock. The runtime delivers requests holding its
// adaptation lock and the handlers then take the resource manager lock; a
// sender that holds the resource manager lock and waits for the adaptation
// lock closes the cycle as soon as a request is in flight. The request then
// ends by the runtime's timeout, which disconnects the plugin.
func checkNoPushUnderPipelineLock(e *executor, r *stepResult) *vfkit.Violation {
	locked := e.h.stub.takePushedLocked()
	if len(locked) == 0 {
		return nil
	}
	return viol(c15, "no request deadlocks", "push-while-holding-pipeline-lock:"+r.Handler,
		"%s: stub.UpdateContainers was called with the resource manager lock held (%v): lock-order inversion against any request the runtime delivers meanwhile", r.Desc, locked)
}

//go:build verif

package resmgr

import (
	"fmt"

	"pgregory.net/rapid"

	polcfg "github.com/containers/nri-plugins/pkg/apis/config/v1alpha1/resmgr/policy"
	blncfg "github.com/containers/nri-plugins/pkg/apis/config/v1alpha1/resmgr/policy/balloons"
	resmgrapi "github.com/containers/nri-plugins/pkg/apis/resmgr/v1alpha1"
	"github.com/containers/nri-plugins/pkg/zzverif/vfkit"
)

const balloonAnnKey = "balloon.balloons"

var shareLevels = []string{"", "", "system", "package", "die", "numa", "l2cache", "core"}

// genBalloonsConfig draws a balloons configuration for the machine.
func genBalloonsConfig(t *rapid.T, topo *vfkit.Topo, o genOpts) *blncfg.Config {
	c := &blncfg.Config{
		ReservedResources:   polcfg.Constraints{},
		ShowContainersInNrt: ptr(true),
	}
	switch rapid.IntRange(0, 9).Draw(t, "pinCPU") {
	case 0:
		c.PinCPU = ptr(false)
	case 1:
		c.PinCPU = ptr(true)
	}
	switch rapid.IntRange(0, 5).Draw(t, "pinMemory") {
	case 0:
		c.PinMemory = ptr(false)
	case 1:
		c.PinMemory = ptr(true)
	}
	if o.PinAlways {
		c.PinCPU, c.PinMemory = ptr(true), ptr(true)
	}
	c.IdleCpuClass = rapid.SampledFrom([]string{"", "idle"}).Draw(t, "idleClass")
	if rapid.Bool().Draw(t, "reservedNamespaces") {
		c.ReservedPoolNamespaces = []string{"reserved-*", "monitoring"}
	}
	c.AllocatorTopologyBalancing = rapid.Bool().Draw(t, "topoBalancing")
	c.PreferSpreadOnPhysicalCores = rapid.Bool().Draw(t, "spreadCores")

	online := topo.OnlineCPUs()
	avail := online
	if rapid.IntRange(0, 2).Draw(t, "availableSet") == 0 {
		avail = genSubset(t, online.Sorted(), 6, "availCPU")
		if avail.Size() < 2 {
			avail = online
		}
		c.AvailableResources = polcfg.Constraints{polcfg.CPU: polcfg.Amount("cpuset:" + avail.String())}
	}
	cand := avail.Minus(topo.IsolatedCPUs()).Sorted()
	if len(cand) > 0 && rapid.Bool().Draw(t, "reservedAsSet") {
		n := rapid.IntRange(1, 2).Draw(t, "nReserved")
		res := vfkit.IDSet{}
		for i := 0; i < n && i < len(cand); i++ {
			res.Add(cand[rapid.IntRange(0, len(cand)-1).Draw(t, "reservedCPU")])
		}
		c.ReservedResources[polcfg.CPU] = polcfg.Amount("cpuset:" + res.String())
	} else {
		c.ReservedResources[polcfg.CPU] = polcfg.Amount(rapid.SampledFrom([]string{"750m", "1", "2"}).Draw(t, "reservedQty"))
	}
	if o.OptOuts && rapid.IntRange(0, 2).Draw(t, "preserveRule") == 0 {
		c.Preserve = &blncfg.ContainerMatchConfig{MatchExpressions: []resmgrapi.Expression{
			{Key: "name", Op: resmgrapi.In, Values: []string{"sidecar"}},
		}}
	}
	if rapid.IntRange(0, 4).Draw(t, "loadClasses") == 0 {
		c.LoadClasses = []blncfg.LoadClass{{Name: "avx", Level: rapid.SampledFrom([]blncfg.CPUTopologyLevel{"core", "l2cache"}).Draw(t, "loadLevel"),
			OverloadsLevelInBalloon: rapid.Bool().Draw(t, "overloads")}}
	}
	ntypes := rapid.IntRange(0, 4).Draw(t, "ntypes")
	ncpu := avail.Size()
	for i := 0; i < ntypes; i++ {
		d := &blncfg.BalloonDef{Name: fmt.Sprintf("t%d", i)}
		switch rapid.IntRange(0, 3).Draw(t, "match") {
		case 0:
			d.Namespaces = []string{rapid.SampledFrom([]string{"prod", "dev", "default", "*", "d*"}).Draw(t, "nsGlob")}
		case 1:
			d.MatchExpressions = []resmgrapi.Expression{{Key: "pod/labels/app", Op: resmgrapi.In,
				Values: []string{rapid.SampledFrom([]string{"web", "db", "batch"}).Draw(t, "appMatch")}}}
		case 2:
			d.MatchExpressions = []resmgrapi.Expression{{Key: "name", Op: resmgrapi.Equals,
				Values: []string{rapid.SampledFrom(ctrNames).Draw(t, "nameMatch")}}}
		}
		if rapid.IntRange(0, 4).Draw(t, "groupBy") == 0 {
			d.GroupBy = rapid.SampledFrom([]string{"${pod/labels/app}", "${pod/namespace}", "x-${pod/labels/app}-${name}"}).Draw(t, "groupExpr")
		}
		d.MinCpus = rapid.SampledFrom([]int{0, 0, 0, 1, 2}).Draw(t, "minCpus")
		d.MaxCpus = rapid.SampledFrom([]int{0, 0, 1, 2, 4, 8}).Draw(t, "maxCpus")
		if d.MaxCpus != 0 && d.MaxCpus < d.MinCpus {
			d.MaxCpus = d.MinCpus
		}
		d.MinBalloons = rapid.SampledFrom([]int{0, 0, 0, 1, 2}).Draw(t, "minBalloons")
		d.MaxBalloons = rapid.SampledFrom([]int{0, 0, 1, 2, 3}).Draw(t, "maxBalloons")
		if d.MaxBalloons != 0 && d.MaxBalloons < d.MinBalloons {
			d.MaxBalloons = d.MinBalloons
		}
		if d.MinBalloons*max(1, d.MinCpus) > ncpu/2 {
			d.MinBalloons = 0
		}
		d.PreferSpreadingPods = rapid.IntRange(0, 3).Draw(t, "spreadPods") == 0
		d.PreferPerNamespaceBalloon = rapid.IntRange(0, 3).Draw(t, "perNs") == 0
		d.PreferNewBalloons = rapid.IntRange(0, 2).Draw(t, "preferNew") == 0
		d.ShareIdleCpusInSame = blncfg.CPUTopologyLevel(rapid.SampledFrom(shareLevels).Draw(t, "shareIdle"))
		if !o.NoHideHT {
			d.HideHyperthreads = genBoolPtr(t, "hideHT")
		}
		d.CpuClass = rapid.SampledFrom([]string{"", "fast", "slow"}).Draw(t, "cpuClass")
		d.AllocatorPriority = blncfg.CPUPriority(rapid.SampledFrom([]string{"", "high", "normal", "low", "none"}).Draw(t, "allocPrio"))
		switch rapid.IntRange(0, 5).Draw(t, "typePinMemory") {
		case 0:
			d.PinMemory = ptr(false)
		case 1:
			d.PinMemory = ptr(true)
		}
		if rapid.IntRange(0, 4).Draw(t, "memTypes") == 0 {
			d.MemoryTypes = rapid.SampledFrom([][]string{{"DRAM"}, {"DRAM", "PMEM"}, {"HBM", "DRAM"}}).Draw(t, "memTypeList")
		}
		d.PreferIsolCpus = rapid.IntRange(0, 5).Draw(t, "isolCpus") == 0
		d.PreferCoreType = rapid.SampledFrom([]string{"", "", "", "performance", "efficient"}).Draw(t, "coreType")
		if len(c.LoadClasses) > 0 && rapid.Bool().Draw(t, "loads") {
			d.Loads = []string{"avx"}
		}
		c.BalloonDefs = append(c.BalloonDefs, d)
	}
	return c
}

// blnLateRejected makes a configuration that passes validation and fails only
// when its balloons are created (more pre-created CPUs than the machine has):
// the policy has replaced its state by then and must put everything back.
func blnLateRejected(c *vhConfig, topo *vfkit.Topo) *vhConfig {
	c.Balloons.BalloonDefs = append(c.Balloons.BalloonDefs, &blncfg.BalloonDef{Name: "huge", MinBalloons: 2, MinCpus: topo.OnlineCPUs().Size()})
	return c
}

// blnDiscardedBalloonMotif puts two balloon types in front of the generated
// ones: containers of the common namespaces run in balloons that also use the
// idle CPUs around them, and containers of prod/dev go to balloons of a fixed
// small size. A prod/dev container that asks for more than that size makes the
// policy create a new balloon, find it too small, and discard it again - while
// the sharing containers have been re-pinned in between. The request fails
// (or falls through to another type) and must leave the others as they were.
func blnDiscardedBalloonMotif(t *rapid.T, c *hcCase) {
	k := rapid.IntRange(1, 2).Draw(t, "fixedCpus")
	levels := []string{"system", "package", "die", "numa", "l2cache", "core"}
	defs := []*blncfg.BalloonDef{
		{Name: "sharer", Namespaces: []string{"default", "kube-system"}, MinCpus: 1, MaxCpus: rapid.SampledFrom([]int{0, 4}).Draw(t, "sharerMax"),
			ShareIdleCpusInSame: blncfg.CPUTopologyLevel(rapid.SampledFrom(levels).Draw(t, "sharerLevel"))},
		{Name: "fixed", Namespaces: []string{"prod", "dev"}, MinCpus: k, MaxCpus: k, PreferNewBalloons: rapid.Bool().Draw(t, "fixedPreferNew")},
	}
	c.Config.Balloons.BalloonDefs = append(defs, c.Config.Balloons.BalloonDefs...)
}

func max(a, b int) int {
	if a > b {
		return a
	}
	return b
}

var blnAnnotations = []annGen{
	{"hide-hyperthreads", []string{"true", "false"}},
	{"memory-type", []string{"dram", "pmem", "dram,pmem", "hbm"}},
	{balloonAnnKey, []string{"t0", "t1", "t2", "default", "reserved", "nosuchtype"}},
}

func genBalloonsCase(t *rapid.T, o genOpts) *hcCase {
	to := o.Topo
	if to.MaxCPUs == 0 {
		to.MaxCPUs = 32
	}
	to.AlwaysL2 = true
	topo := vfkit.GenTopo(t, to)
	cfg := &vhConfig{Balloons: genBalloonsConfig(t, topo, o)}
	c := &hcCase{Policy: polBalloons, Topo: topo, Config: cfg}
	saved := taAnnotations
	_ = saved
	c.Ops = genOpsWith(t, o, topo, blnAnnotations, func(t *rapid.T) *vhConfig {
		switch rapid.IntRange(0, 5).Draw(t, "sameCfg") {
		case 0:
			return cfg.clone()
		case 1:
			return blnLateRejected(&vhConfig{Balloons: genBalloonsConfig(t, topo, o)}, topo)
		}
		return &vhConfig{Balloons: genBalloonsConfig(t, topo, o)}
	})
	return c
}

//go:build verif

package resmgr

import (
	"fmt"
	"runtime"
	"strings"
	"testing"

	"github.com/containerd/nri/pkg/api"
	"pgregory.net/rapid"

	"github.com/containers/nri-plugins/pkg/zzverif/vfkit"
)

const c14 = "C14"

// hostile annotation material
var c14Keys = []string{
	"prefer-shared-cpus", "prefer-isolated-cpus", "prefer-reserved-cpus", "prefer-cpu-priority", "hide-hyperthreads",
	"cpu.preserve", "memory.preserve", "memory-type", "cold-start", "topologyhints", "allow.topologyhints", "deny.topologyhints",
	"rdtclass", "blockioclass", "toptierlimit", "balloon.balloons",
}

var c14Values = []string{
	"true", "false", "", "dram", "duration: 60s", "default", "t0",
	"[1, 2, 3]", "{a: b}", "null", "[null, null]", "~", "- - - - - - - x", "{{{{{{", "]]]",
	"\xff\xfe\xfd", "99999999999999999999999999", "-1", "1e308", "duration: -5s", "duration: 99999h", "duration: [1]",
	"type: prefix\npaths: [\"/dev\"]", "type: glob\npaths: 5", "type: 7", strings.Repeat("a", 70000), strings.Repeat("[", 3000),
	"dram,,pmem", "hbm,bogus", " true ", "TRUE", "yes",
}

var c14Affinities = []string{
	"c0: [ c1 ]", "c0: [ c0 ]", "c0: 5", "c0: [ [ ] ]", "- scope:", "c0:\n- match:\n    key: name\n    operator: Nonsense\n    values: [x]",
	"c0:\n- match:\n    key: \":,:x\"\n    operator: In\n    values: [x]\n  weight: 99999999999",
	"c0:\n- scope:\n    key: labels/a\n    operator: Exists\n  match:\n    key: \"\"\n    operator: Matches\n    values: [\"[\"]\n  weight: -5000",
	"c0:\n- match: null", "null", "", "\xff", "c0:\n- {}",
}

type c14Call struct {
	Handler string            `json:"handler"`
	Pod     int               `json:"pod"`           // index into known pods; -1 = unknown id
	Ctr     int               `json:"ctr"`           // index into known containers; -1 = unknown id
	Shape   int               `json:"shape"`         // which optional sub-messages are absent
	Ann     map[string]string `json:"ann,omitempty"` // annotations for a new pod
	Milli   int64             `json:"milli,omitempty"`
	Mem     int64             `json:"mem,omitempty"`
	QoS     string            `json:"qos,omitempty"`
	NS      string            `json:"ns,omitempty"`
	Name    string            `json:"name,omitempty"`
}

type c14Case struct {
	Policy string      `json:"policy"`
	Topo   *vfkit.Topo `json:"topo"`
	Config *vhConfig   `json:"config"`
	Calls  []c14Call   `json:"calls"`
}

func c14Gen(t *rapid.T, policy string) *c14Case {
	topo := c14Topos(policy)[rapid.IntRange(0, 7).Draw(t, "machine")]
	c := &c14Case{Policy: policy, Topo: topo}
	if policy == polTA {
		c.Config = &vhConfig{TA: genTAConfig(t, topo, genOpts{PinAlways: true})}
	} else {
		c.Config = &vhConfig{Balloons: genBalloonsConfig(t, topo, genOpts{PinAlways: true})}
	}
	n := rapid.IntRange(4, 40).Draw(t, "ncalls")
	handlers := []string{"RunPodSandbox", "RunPodSandbox", "CreateContainer", "CreateContainer", "CreateContainer", "StartContainer", "UpdateContainer", "UpdateContainer",
		"StopContainer", "RemoveContainer", "StopPodSandbox", "RemovePodSandbox", "Synchronize", "CreateContainer"}
	for i := 0; i < n; i++ {
		call := c14Call{Handler: rapid.SampledFrom(handlers).Draw(t, "handler"),
			Pod: rapid.IntRange(-1, 6).Draw(t, "pod"), Ctr: rapid.IntRange(-1, 8).Draw(t, "ctr"),
			Shape: rapid.IntRange(0, 7).Draw(t, "shape"),
			Milli: rapid.SampledFrom([]int64{0, 1, 500, 1000, 1500, 2000, 1 << 40, -1000}).Draw(t, "milli"),
			Mem:   rapid.SampledFrom([]int64{0, 1 << 20, 1 << 62, -1}).Draw(t, "mem"),
			QoS:   rapid.SampledFrom([]string{"guaranteed", "burstable", "besteffort", "weird"}).Draw(t, "qos"),
			NS:    rapid.SampledFrom([]string{"default", "kube-system", "", "reserved-x"}).Draw(t, "ns"),
			Name:  rapid.SampledFrom([]string{"c0", "c1", "", "c0"}).Draw(t, "name"),
		}
		if call.Handler == "RunPodSandbox" || call.Handler == "Synchronize" {
			call.Ann = map[string]string{}
			na := rapid.IntRange(0, 3).Draw(t, "nann")
			for j := 0; j < na; j++ {
				if rapid.IntRange(0, 4).Draw(t, "affinity") == 0 {
					k := rapid.SampledFrom([]string{"resource-policy.nri.io/affinity", "resource-policy.nri.io/anti-affinity"}).Draw(t, "affKey")
					call.Ann[k] = rapid.SampledFrom(c14Affinities).Draw(t, "affVal")
					continue
				}
				key := rapid.SampledFrom(c14Keys).Draw(t, "key") + "." + nsKey
				switch rapid.IntRange(0, 2).Draw(t, "form") {
				case 1:
					key += "/pod"
				case 2:
					key += "/container." + rapid.SampledFrom([]string{"c0", "c1", ""}).Draw(t, "formCtr")
				}
				call.Ann[key] = rapid.SampledFrom(c14Values).Draw(t, "val")
			}
		}
		c.Calls = append(c.Calls, call)
	}
	return c
}

var c14TopoPool = map[string][]*vfkit.Topo{}

func c14Topos(policy string) []*vfkit.Topo {
	if c14TopoPool[policy] == nil {
		c14TopoPool[policy] = vfkit.TopoPool(8, vfkit.TopoOpts{MaxCPUs: 16, SmallMem: true})
	}
	return c14TopoPool[policy]
}

type c14State struct {
	pods []*api.PodSandbox
	ctrs []*api.Container
	seq  int
}

func (s *c14State) pod(i int) *api.PodSandbox {
	if i < 0 || len(s.pods) == 0 {
		return &api.PodSandbox{Id: "unknown-pod", Name: "ghost", Namespace: "default"}
	}
	return clonePod(s.pods[i%len(s.pods)])
}

func (s *c14State) ctr(i int) *api.Container {
	if i < 0 || len(s.ctrs) == 0 {
		return &api.Container{Id: "unknown-ctr", PodSandboxId: "unknown-pod", Name: "ghost"}
	}
	return cloneCtr(s.ctrs[i%len(s.ctrs)])
}

func c14Frame() string {
	pcs := make([]uintptr, 40)
	n := runtime.Callers(3, pcs)
	frames := runtime.CallersFrames(pcs[:n])
	for {
		f, more := frames.Next()
		if strings.Contains(f.Function, "nri-plugins") && !strings.Contains(f.Function, "zzverif") && !strings.Contains(f.File, "zz_verif") {
			fn := f.Function[strings.LastIndex(f.Function, "/")+1:]
			return fn
		}
		if !more {
			return "?"
		}
	}
}

func c14Run(c *c14Case) (v *vfkit.Violation, errs int, unknown int, rejected bool) {
	dir := vhNewStateDir()
	h, err := vhStart(c.Policy, c.Topo, dir, c.Config)
	if err != nil {
		vhRemove(dir)
		return nil, 0, 0, true
	}
	defer h.close()
	p := h.m.nri
	s := &c14State{}
	call := func(name string, f func() error) {
		if v != nil {
			return
		}
		defer func() {
			if r := recover(); r != nil {
				v = viol(c14, "every handler returns and never panics", "panic:"+name+":"+c14Frame(), "%s panicked: %v", name, r)
			}
		}()
		if err := f(); err != nil {
			errs++
		}
	}
	for _, cl := range c.Calls {
		cl := cl
		switch cl.Handler {
		case "RunPodSandbox":
			s.seq++
			pod := &api.PodSandbox{Id: fmt.Sprintf("p%d", s.seq), Name: fmt.Sprintf("pod%d", s.seq), Uid: fmt.Sprintf("u%d", s.seq),
				Namespace: cl.NS, Annotations: cl.Ann, Labels: map[string]string{"app": "x"}}
			if cl.Shape&1 == 0 {
				parent := map[string]string{"guaranteed": "/kubepods/pod", "burstable": "/kubepods/burstable/pod", "besteffort": "/kubepods/besteffort/pod", "weird": ""}[cl.QoS]
				pod.Linux = &api.LinuxPodSandbox{CgroupParent: parent}
			}
			if cl.Pod == 0 && len(s.pods) > 0 {
				pod.Id = s.pods[0].Id // duplicate RunPodSandbox for a known id
			}
			s.pods = append(s.pods, pod)
			call("RunPodSandbox", func() error { return p.RunPodSandbox(bg, clonePod(pod)) })
		case "CreateContainer":
			s.seq++
			pod := s.pod(cl.Pod)
			if cl.Pod < 0 {
				unknown++
			}
			ctr := &api.Container{Id: fmt.Sprintf("c%d", s.seq), PodSandboxId: pod.Id, Name: cl.Name}
			if cl.Ctr == 0 && len(s.ctrs) > 0 {
				ctr.Id = s.ctrs[0].Id // duplicate CreateContainer for a known id
			}
			if cl.Shape&1 == 0 {
				ctr.Linux = &api.LinuxContainer{}
				if cl.Shape&2 == 0 {
					ctr.Linux.Resources = &api.LinuxResources{}
					if cl.Shape&4 == 0 {
						ctr.Linux.Resources.Cpu = &api.LinuxCPU{Shares: api.UInt64(uint64(vfkit.RefMilliCPUToShares(cl.Milli))), Quota: api.Int64(cl.Milli * 100), Period: api.UInt64(100000)}
						ctr.Linux.Resources.Memory = &api.LinuxMemory{Limit: api.Int64(cl.Mem)}
					}
				}
			}
			s.ctrs = append(s.ctrs, ctr)
			call("CreateContainer", func() error { _, _, err := p.CreateContainer(bg, pod, cloneCtr(ctr)); return err })
		case "StartContainer":
			if cl.Ctr < 0 {
				unknown++
			}
			call("StartContainer", func() error { return p.StartContainer(bg, s.pod(cl.Pod), s.ctr(cl.Ctr)) })
		case "UpdateContainer":
			if cl.Ctr < 0 {
				unknown++
			}
			var res *api.LinuxResources
			switch cl.Shape % 4 {
			case 0:
				res = &api.LinuxResources{Cpu: &api.LinuxCPU{Shares: api.UInt64(uint64(vfkit.RefMilliCPUToShares(cl.Milli)))}, Memory: &api.LinuxMemory{Limit: api.Int64(cl.Mem)}}
			case 1:
				res = &api.LinuxResources{}
			case 2:
				res = &api.LinuxResources{Cpu: &api.LinuxCPU{}}
			}
			call("UpdateContainer", func() error { _, err := p.UpdateContainer(bg, s.pod(cl.Pod), s.ctr(cl.Ctr), res); return err })
		case "StopContainer":
			if cl.Ctr < 0 {
				unknown++
			}
			call("StopContainer", func() error { _, err := p.StopContainer(bg, s.pod(cl.Pod), s.ctr(cl.Ctr)); return err })
		case "RemoveContainer":
			if cl.Ctr < 0 {
				unknown++
			}
			call("RemoveContainer", func() error { return p.RemoveContainer(bg, s.pod(cl.Pod), s.ctr(cl.Ctr)) })
		case "StopPodSandbox":
			if cl.Pod < 0 {
				unknown++
			}
			call("StopPodSandbox", func() error { return p.StopPodSandbox(bg, s.pod(cl.Pod)) })
		case "RemovePodSandbox":
			if cl.Pod < 0 {
				unknown++
			}
			call("RemovePodSandbox", func() error { return p.RemovePodSandbox(bg, s.pod(cl.Pod)) })
		case "Synchronize":
			// an arbitrary subset of what was ever announced, possibly with dangling pod references
			pods, ctrs := []*api.PodSandbox{}, []*api.Container{}
			for i, pd := range s.pods {
				if (i+cl.Shape)%3 != 0 {
					pods = append(pods, clonePod(pd))
				}
			}
			for i, ct := range s.ctrs {
				if (i+cl.Shape)%2 == 0 {
					cc := cloneCtr(ct)
					cc.State = api.ContainerState((i + cl.Shape) % 5)
					ctrs = append(ctrs, cc)
				}
			}
			call("Synchronize", func() error { _, err := p.Synchronize(bg, pods, ctrs); return err })
		}
		if v != nil {
			return v, errs, unknown, false
		}
	}
	// a refused request leaves the plugin able to serve later requests:
	// drain everything that was ever announced, then a fresh valid pod must be served
	for _, ct := range s.ctrs {
		ct := ct
		call("StopContainer(drain)", func() error { _, err := p.StopContainer(bg, s.pod(0), cloneCtr(ct)); return err })
		call("RemoveContainer(drain)", func() error { return p.RemoveContainer(bg, s.pod(0), cloneCtr(ct)) })
	}
	for _, pd := range s.pods {
		pd := pd
		call("StopPodSandbox(drain)", func() error { return p.StopPodSandbox(bg, clonePod(pd)) })
		call("RemovePodSandbox(drain)", func() error { return p.RemovePodSandbox(bg, clonePod(pd)) })
	}
	if v != nil {
		return v, errs, unknown, false
	}
	fresh := &api.PodSandbox{Id: "fresh-pod", Name: "fresh", Uid: "fresh", Namespace: "default", Linux: &api.LinuxPodSandbox{CgroupParent: "/kubepods/besteffort/podfresh"}}
	var ferr error
	call("RunPodSandbox(fresh)", func() error { return p.RunPodSandbox(bg, clonePod(fresh)) })
	call("CreateContainer(fresh)", func() error {
		_, _, ferr = p.CreateContainer(bg, clonePod(fresh), &api.Container{Id: "fresh-ctr", PodSandboxId: "fresh-pod", Name: "c",
			Linux: &api.LinuxContainer{Resources: &api.LinuxResources{Cpu: &api.LinuxCPU{Shares: api.UInt64(2)}, Memory: &api.LinuxMemory{}}}})
		return ferr
	})
	if v == nil && ferr != nil {
		// would a pristine instance of this configuration serve it? (some
		// generated configurations have no room even for one BestEffort container)
		dir2 := vhNewStateDir()
		defer vhRemove(dir2)
		if h2, err := vhStart(c.Policy, c.Topo, dir2, c.Config); err == nil {
			_ = h2.m.nri.RunPodSandbox(bg, clonePod(fresh))
			_, _, perr := h2.m.nri.CreateContainer(bg, clonePod(fresh), &api.Container{Id: "fresh-ctr", PodSandboxId: "fresh-pod", Name: "c",
				Linux: &api.LinuxContainer{Resources: &api.LinuxResources{Cpu: &api.LinuxCPU{Shares: api.UInt64(2)}, Memory: &api.LinuxMemory{}}}})
			if perr != nil {
				return nil, errs, unknown, false
			}
		}
		v = viol(c14, "a refused request leaves the plugin able to serve all later requests", "fresh-valid-request-refused-after-hostile-sequence",
			"after draining, a BestEffort container in a fresh pod was refused: %v", ferr)
	}
	return v, errs, unknown, false
}

func c14Test(t *testing.T, policy, unit string) {
	defer vfkit.Flush()
	st := vfkit.For(c14)
	rapid.Check(t, func(t *rapid.T) {
		c := c14Gen(t, policy)
		v, errs, unknown, rejected := c14Run(c)
		labels := []string{}
		if rejected {
			labels = append(labels, "config-rejected-at-start")
		}
		if errs > 0 {
			labels = append(labels, "some-handler-returned-an-error")
		}
		if unknown > 0 {
			labels = append(labels, "unknown-id-addressed")
		}
		nt := !rejected && (errs > 0 || unknown > 0)
		st.Case(unit, nt, vfkit.Hash(c), labels...)
		if nt && st.WantSample() && len(c.Calls) <= 8 {
			st.Sample(map[string]any{"policy": c.Policy, "calls": c.Calls})
		}
		if v != nil {
			// minimise by dropping calls
			cur := *c
			for i := len(cur.Calls) - 1; i >= 0; i-- {
				cand := cur
				cand.Calls = append(append([]c14Call{}, cur.Calls[:i]...), cur.Calls[i+1:]...)
				if w, _, _, _ := c14Run(&cand); w != nil && w.Signature == v.Signature {
					cur = cand
				}
			}
			st.Report(t, unit, v, &cur)
		}
	})
}

func TestVerifC14TA(t *testing.T)       { c14Test(t, polTA, "hostile-ta") }
func TestVerifC14Balloons(t *testing.T) { c14Test(t, polBalloons, "hostile-balloons") }

func TestVerifC14Replay(t *testing.T) {
	c := &c14Case{}
	rf, ok, err := vfkit.LoadReplay(c)
	if !ok || !strings.HasPrefix(rf.Unit, "hostile-") {
		t.Skip("no replay file for this unit")
	}
	if err != nil {
		t.Fatalf("replay: %v", err)
	}
	if v, _, _, _ := c14Run(c); v != nil {
		vfkit.For(c14).Report(t, rf.Unit, v, c)
	}
}

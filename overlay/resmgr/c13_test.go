//go:build verif && verifwb

package resmgr

import (
	"fmt"
	"os"
	"sort"
	"strings"
	"testing"

	"pgregory.net/rapid"

	polcfg "github.com/containers/nri-plugins/pkg/apis/config/v1alpha1/resmgr/policy"
	blncfg "github.com/containers/nri-plugins/pkg/apis/config/v1alpha1/resmgr/policy/balloons"
	"github.com/containers/nri-plugins/pkg/zzverif/vfkit"
)

const c13 = "C13"

// ------------------------------------------------------------ (a) identical
func checkIdenticalReconfig(e *executor, r *stepResult) *vfkit.Violation {
	if r.Op.Kind != "reconfig-same" {
		return nil
	}
	if r.CfgError != nil {
		return viol(c13, "re-applying the configuration in effect is accepted", "identical-config-rejected", "%s: %v", r.Desc, r.CfgError)
	}
	d := diffMaps(r.PreSnap, r.PostSnap)
	if len(d) == 0 {
		return nil
	}
	kind := "zones"
	for _, l := range d {
		if strings.HasPrefix(l, "rt:") || strings.HasPrefix(l, "cache:") {
			kind = "container-resources"
		}
	}
	sig := "identical-config-changed-" + kind + ":" + e.h.policy
	if e.failedPendingBefore {
		sig += ":after-failed-request"
	}
	return viol(c13, "re-applying an unchanged configuration changes no container's resources", sig, "%s: %v", r.Desc, d)
}

func c13IdentObserve(e *executor, r *stepResult, ri *runInfo) {
	if r.Op.Kind != "reconfig-same" {
		return
	}
	live := e.m.live()
	special := false
	if e.h.policy == polTA {
		v := e.taView()
		if v.snap != nil {
			for _, g := range v.snap.Grants {
				if !set(g.Exclusive).Empty() {
					special = true
				}
			}
		}
	} else {
		v := e.blnView()
		if v.snap != nil {
			for _, b := range v.snap.Balloons {
				if len(b.Pods) > 0 && b.Def != "default" && b.Def != "reserved" {
					special = true
				}
			}
		}
	}
	if len(live) >= 2 && special {
		ri.nt = true
		ri.label("identical-config-with-2+-live-containers")
	}
}

func withSameReconfigs(t *rapid.T, c *hcCase) *hcCase {
	// sprinkle re-deliveries of the configuration in effect over the history
	n := rapid.IntRange(1, 3).Draw(t, "nSame")
	for i := 0; i < n; i++ {
		pos := rapid.IntRange(2, len(c.Ops)).Draw(t, "samePos")
		ops := append([]hcOp{}, c.Ops[:pos]...)
		ops = append(ops, hcOp{Kind: "reconfig-same"})
		c.Ops = append(ops, c.Ops[pos:]...)
	}
	return c
}

var c13IdentTA = &propTest{prop: c13, unit: "identical-ta",
	gen: func(t *rapid.T) *hcCase {
		return withSameReconfigs(t, genTACase(t, genOpts{Policy: polTA, MinOps: 8, MaxOps: 30, Reconfig: true, ExclHeavy: true}))
	},
	invs: []invFn{checkIdenticalReconfig}, observe: c13IdentObserve}

var c13IdentBln = &propTest{prop: c13, unit: "identical-balloons",
	gen: func(t *rapid.T) *hcCase {
		return withSameReconfigs(t, genBalloonsCase(t, genOpts{Policy: polBalloons, MinOps: 8, MaxOps: 30, Reconfig: true, FillPools: true, NoUpdates: true}))
	},
	invs: []invFn{checkIdenticalReconfig}, observe: c13IdentObserve}

func TestVerifC13IdenticalTA(t *testing.T)             { c13IdentTA.run(t) }
func TestVerifC13IdenticalTAReplay(t *testing.T)       { c13IdentTA.replay(t) }
func TestVerifC13IdenticalBalloons(t *testing.T)       { c13IdentBln.run(t) }
func TestVerifC13IdenticalBalloonsReplay(t *testing.T) { c13IdentBln.replay(t) }

// ------------------------------------------------------------ (c) accepted
// after an accepted update: every invariant library of the policy must pass
// under the new configuration, on that very step
func acceptedInvs(policy string) []invFn {
	var libs []invFn
	if policy == polTA {
		libs = []invFn{checkTAExclusive, checkTACapacity, checkTAMemory, checkTANoStaleHolders, checkRuntimeView, checkTAAllLiveHoldGrant}
	} else {
		libs = []invFn{checkBalloons, checkBalloonsMemory, checkBalloonsNoStaleHolders, checkRuntimeView}
	}
	out := []invFn{}
	for _, lib := range libs {
		lib := lib
		out = append(out, func(e *executor, r *stepResult) *vfkit.Violation {
			v := lib(e, r) // (libraries keep per-history trackers: run them on every step)
			if v == nil || r.Op.Kind != "reconfig" || r.CfgError != nil {
				if v != nil && vfkit.IsKnown(v) {
					return v // a known finding of another property ends this history
				}
				if v != nil {
					return v
				}
				return nil
			}
			return viol(c13, "after an accepted update every invariant holds under the new configuration: "+v.Clause,
				"after-accepted-update:"+v.Property+":"+v.Signature, "%s", v.Detail)
		})
	}
	return out
}

// every created/running container still holds an allocation (topology-aware)
func checkTAAllLiveHoldGrant(e *executor, r *stepResult) *vfkit.Violation {
	v := e.taView()
	if v.snap == nil {
		return nil
	}
	for _, c := range e.m.live() {
		if _, ok := v.grants[c.ID]; !ok {
			sig := "live-container-without-grant"
			if r.Handler == "Synchronize" || r.Handler == "updateConfig" {
				sig = "exclusive-in-cpuset-of-container-that-could-not-be-reallocated-by-" + r.Handler
			}
			return viol("C01", "every created or running container holds an allocation", sig, "after %s: %s has no grant", r.Desc, c.ID)
		}
	}
	return nil
}

func c13AccObserve(e *executor, r *stepResult, ri *runInfo) {
	if r.Op.Kind == "reconfig" && r.CfgError == nil && len(e.m.live()) >= 2 {
		ri.nt = true
		ri.label("accepted-update-with-2+-live-containers")
		if len(r.Pushes) > 0 {
			ri.label("accepted-update-pushed-changes")
		}
	}
}

var c13AccTA = &propTest{prop: c13, unit: "accepted-ta",
	gen: func(t *rapid.T) *hcCase {
		return genTACase(t, genOpts{Policy: polTA, MinOps: 8, MaxOps: 30, Reconfig: true, ExclHeavy: true})
	},
	invs: acceptedInvs(polTA), observe: c13AccObserve}

var c13AccBln = &propTest{prop: c13, unit: "accepted-balloons",
	gen: func(t *rapid.T) *hcCase {
		return genBalloonsCase(t, genOpts{Policy: polBalloons, MinOps: 8, MaxOps: 30, Reconfig: true, FillPools: true})
	},
	invs: acceptedInvs(polBalloons), observe: c13AccObserve}

func TestVerifC13AcceptedTA(t *testing.T)             { c13AccTA.run(t) }
func TestVerifC13AcceptedTAReplay(t *testing.T)       { c13AccTA.replay(t) }
func TestVerifC13AcceptedBalloons(t *testing.T)       { c13AccBln.run(t) }
func TestVerifC13AcceptedBalloonsReplay(t *testing.T) { c13AccBln.replay(t) }

// ------------------------------------------------------------ (b) rejected: twins
type rejKind struct {
	name  string
	apply func(c *vhConfig, topo *vfkit.Topo)
}

var rejKindsTA = []rejKind{
	{"unparsable-available-cpuset", func(c *vhConfig, _ *vfkit.Topo) {
		c.TA.AvailableResources = polcfg.Constraints{polcfg.CPU: "cpuset:0-x"}
	}},
	{"unparsable-reserved-cpuset", func(c *vhConfig, _ *vfkit.Topo) {
		c.TA.ReservedResources = polcfg.Constraints{polcfg.CPU: "cpuset:foo"}
	}},
	{"available-as-quantity", func(c *vhConfig, _ *vfkit.Topo) { c.TA.AvailableResources = polcfg.Constraints{polcfg.CPU: "4"} }},
	{"missing-reservation", func(c *vhConfig, _ *vfkit.Topo) { c.TA.ReservedResources = polcfg.Constraints{} }},
	{"reserved-outside-available", func(c *vhConfig, topo *vfkit.Topo) {
		on := topo.OnlineCPUs().Sorted()
		c.TA.AvailableResources = polcfg.Constraints{polcfg.CPU: polcfg.Amount(fmt.Sprintf("cpuset:%d", on[0]))}
		c.TA.ReservedResources = polcfg.Constraints{polcfg.CPU: polcfg.Amount(fmt.Sprintf("cpuset:%d", on[len(on)-1]))}
	}},
	{"capacity-too-small", func(c *vhConfig, topo *vfkit.Topo) {
		on := topo.OnlineCPUs().Minus(topo.IsolatedCPUs()).Sorted()
		if len(on) == 0 {
			on = topo.OnlineCPUs().Sorted()
		}
		c.TA.AvailableResources = polcfg.Constraints{polcfg.CPU: polcfg.Amount(fmt.Sprintf("cpuset:%d", on[0]))}
		c.TA.ReservedResources = polcfg.Constraints{polcfg.CPU: polcfg.Amount(fmt.Sprintf("cpuset:%d", on[0]))}
	}},
}

var rejKindsBln = []rejKind{
	{"unparsable-available-cpuset", func(c *vhConfig, _ *vfkit.Topo) {
		c.Balloons.AvailableResources = polcfg.Constraints{polcfg.CPU: "cpuset:0-x"}
	}},
	{"unparsable-reserved-cpuset", func(c *vhConfig, _ *vfkit.Topo) {
		c.Balloons.ReservedResources = polcfg.Constraints{polcfg.CPU: "cpuset:foo"}
	}},
	{"available-as-quantity", func(c *vhConfig, _ *vfkit.Topo) { c.Balloons.AvailableResources = polcfg.Constraints{polcfg.CPU: "4"} }},
	{"reserved-outside-available", func(c *vhConfig, topo *vfkit.Topo) {
		on := topo.OnlineCPUs().Sorted()
		c.Balloons.AvailableResources = polcfg.Constraints{polcfg.CPU: polcfg.Amount(fmt.Sprintf("cpuset:%d", on[0]))}
		c.Balloons.ReservedResources = polcfg.Constraints{polcfg.CPU: polcfg.Amount(fmt.Sprintf("cpuset:%d", on[len(on)-1]))}
	}},
	{"duplicate-balloon-type", func(c *vhConfig, _ *vfkit.Topo) {
		c.Balloons.BalloonDefs = append(c.Balloons.BalloonDefs, &blncfg.BalloonDef{Name: "dup"}, &blncfg.BalloonDef{Name: "dup"})
	}},
	{"ill-bounded-balloon-type", func(c *vhConfig, _ *vfkit.Topo) {
		c.Balloons.BalloonDefs = append(c.Balloons.BalloonDefs, &blncfg.BalloonDef{Name: "bad", MinCpus: 3, MaxCpus: 1})
	}},
	{"undefined-load-class", func(c *vhConfig, _ *vfkit.Topo) {
		c.Balloons.BalloonDefs = append(c.Balloons.BalloonDefs, &blncfg.BalloonDef{Name: "loaded", Loads: []string{"nosuchload"}})
	}},
	{"capacity-too-small", func(c *vhConfig, topo *vfkit.Topo) {
		c.Balloons.BalloonDefs = append(c.Balloons.BalloonDefs, &blncfg.BalloonDef{Name: "huge", MinBalloons: 2, MinCpus: topo.OnlineCPUs().Size()})
	}},
}

type c13TwinCase struct {
	Case   *hcCase   `json:"case"`
	Pos    int       `json:"pos"`
	Kind   string    `json:"kind"`
	BadCfg *vhConfig `json:"bad_config"`
}

// traceOf runs a case and returns, per executed step index (of the case's ops),
// the normalised reply, plus the final observables. Stops at a violation-free end.
// pendingAtInjection: a failed request had left changes undelivered when the
// injected update arrived (its revert pushes them: the C05 finding, not C13's)
var pendingAtInjection bool

func traceOf(c *hcCase, skip int) (steps map[int]string, final map[string]string, accepted bool, rejErr error, err error) {
	steps = map[int]string{}
	dir := vhNewStateDir()
	h, serr := vhStart(c.Policy, c.Topo, dir, c.Config)
	if serr != nil {
		vhRemove(dir)
		return nil, nil, false, nil, serr
	}
	defer h.close()
	e := &executor{h: h, m: newRtModel(), cfg: c.Config, scratch: map[string]any{}}
	for i, op := range c.Ops {
		if i == skip {
			continue
		}
		if op.Kind == "reconfig" && op.A == -13 {
			pendingAtInjection = e.failedPending || len(e.h.m.cache.GetPendingContainers()) > 0
		}
		r := e.exec(op)
		if r.Noop {
			continue
		}
		if os.Getenv("VERIF_TRACE") != "" {
			r.Desc = fmt.Sprintf("op %d %s(%s)", i, r.Handler, r.Target)
			traceStep(e, r)
		}
		if op.Kind == "reconfig" && op.A == -13 { // the injected update
			if r.CfgError == nil {
				accepted = true
			}
			rejErr = r.CfgError
			continue
		}
		// decisions = outcome of the request and the resulting runtime view of
		// every live container (re-sent equal values are not a difference)
		view := []string{}
		for _, c := range e.m.live() {
			view = append(view, fmt.Sprintf("%s cpus=%s mems=%s shares=%d", c.ID, vfkit.MustParseIDSet(c.Res.Cpus), vfkit.MustParseIDSet(c.Res.Mems), c.Res.Shares))
		}
		sort.Strings(view)
		steps[i] = fmt.Sprintf("%s err=%v cfgerr=%v runtime=%v", r.Handler, r.Err != nil, r.CfgError != nil, view)
	}
	return steps, e.observables(), accepted, rejErr, nil
}

func c13TwinCheck(tc *c13TwinCase, st *vfkit.Stats) (v *vfkit.Violation, labels []string, nt bool) {
	a := *tc.Case
	a.Ops = append([]hcOp{}, tc.Case.Ops[:tc.Pos]...)
	a.Ops = append(a.Ops, hcOp{Kind: "reconfig", A: -13, Cfg: tc.BadCfg})
	a.Ops = append(a.Ops, tc.Case.Ops[tc.Pos:]...)
	// B: never receives the update; run twice as determinism self-check
	b1, f1, _, _, err := traceOf(&a, tc.Pos)
	if err != nil {
		return nil, []string{"config-rejected-at-start"}, false
	}
	// map-order dependent code paths (re-pinning order, Synchronize order) make
	// some histories legitimately non-deterministic: both twins must reproduce
	// themselves three times before a difference between them is believed
	for i := 0; i < 2; i++ {
		b2, f2, _, _, _ := traceOf(&a, tc.Pos)
		if fmt.Sprint(b1) != fmt.Sprint(b2) || len(diffMaps(f1, f2)) > 0 {
			if st != nil {
				st.SelfCheckFailed()
			}
			return nil, []string{"self-check-failed"}, false
		}
	}
	as, fa, accepted, rejErr, _ := traceOf(&a, -1)
	for i := 0; i < 2 && !accepted; i++ {
		as2, fa2, _, _, _ := traceOf(&a, -1)
		if fmt.Sprint(as) != fmt.Sprint(as2) || len(diffMaps(fa, fa2)) > 0 {
			if st != nil {
				st.SelfCheckFailed()
			}
			return nil, []string{"self-check-failed"}, false
		}
	}
	labels = []string{"kind:" + tc.Kind}
	if accepted {
		return nil, append(labels, "update-was-accepted"), false
	}
	_ = rejErr
	labels = append(labels, "rejected:"+tc.Kind)
	nt = true
	// a difference is believed only if both twins keep reproducing themselves
	confirm := func() bool {
		for i := 0; i < 3; i++ {
			b2, f2, _, _, _ := traceOf(&a, tc.Pos)
			a2, fa2, _, _, _ := traceOf(&a, -1)
			if fmt.Sprint(b1) != fmt.Sprint(b2) || len(diffMaps(f1, f2)) > 0 || fmt.Sprint(as) != fmt.Sprint(a2) || len(diffMaps(fa, fa2)) > 0 {
				if st != nil {
					st.SelfCheckFailed()
				}
				return false
			}
		}
		return true
	}
	kindSig := tc.Kind
	if pendingAtInjection {
		// the revert to the configuration in effect pushes what an earlier failed
		// request had left undelivered: that difference is the C05 finding's
		kindSig = "after-failed-request"
		labels = append(labels, "undelivered-changes-at-injection")
	}
	for i := range tc.Case.Ops {
		idx := i
		if i >= tc.Pos {
			idx = i + 1
		}
		if i < tc.Pos {
			continue
		}
		if as[idx] != b1[idx] {
			if !confirm() {
				return nil, append(labels, "self-check-failed"), false
			}
			return viol(c13, "a rejected update leaves all subsequent allocation decisions identical to never having received it",
				"subsequent-decisions-differ:"+tc.Case.Policy+":"+kindSig,
				"step %d after the rejected update: with it %q, without it %q", idx, as[idx], b1[idx]), labels, nt
		}
	}
	if d := diffMaps(f1, fa); len(d) > 0 {
		if !confirm() {
			return nil, append(labels, "self-check-failed"), false
		}
		return viol(c13, "a rejected update leaves assignments and advertised capacities identical to never having received it",
			"final-state-differs:"+tc.Case.Policy+":"+kindSig, "%v", d), labels, nt
	}
	return nil, labels, nt
}

func c13GenTwin(t *rapid.T, policy string) *c13TwinCase {
	var base *hcCase
	var kinds []rejKind
	if policy == polTA {
		base = genTACase(t, genOpts{Policy: polTA, MinOps: 6, MaxOps: 24, ExclHeavy: true, NoUpdates: false})
		kinds = rejKindsTA
		// topology-aware Synchronize re-allocates containers in Go map order,
		// which makes two runs of the same history differ legitimately: twins
		// contain no Synchronize
		ops := []hcOp{}
		for _, op := range base.Ops {
			if op.Kind != "sync" {
				ops = append(ops, op)
			}
		}
		base.Ops = ops
	} else {
		base = genBalloonsCase(t, genOpts{Policy: polBalloons, MinOps: 6, MaxOps: 24, FillPools: true})
		kinds = rejKindsBln
		// (balloons Synchronize re-admits containers of equal creation time in map
		// order, too: seen as twins that reproduce themselves three times and differ
		// the fourth; no Synchronize in twin histories of either policy)
		ops := []hcOp{}
		for _, op := range base.Ops {
			if op.Kind != "sync" {
				ops = append(ops, op)
			}
		}
		base.Ops = ops
	}
	// the kinds rejected late (after the policy has started to rebuild its state)
	// are the ones whose rollback can go wrong: draw them as often as all others together
	k := rapid.SampledFrom(kinds).Draw(t, "rejKind")
	if rapid.Bool().Draw(t, "lateRejection") {
		k = kinds[len(kinds)-1]
	}
	bad := base.Config.clone()
	k.apply(bad, base.Topo)
	return &c13TwinCase{Case: base, Pos: rapid.IntRange(1, max(1, len(base.Ops))).Draw(t, "pos"), Kind: k.name, BadCfg: bad}
}

func c13TwinTest(t *testing.T, policy, unit string) {
	defer vfkit.Flush()
	st := vfkit.For(c13)
	rapid.Check(t, func(t *rapid.T) {
		tc := c13GenTwin(t, policy)
		v, labels, nt := c13TwinCheck(tc, st)
		st.Case(unit, nt, vfkit.Hash(tc), labels...)
		if nt && st.WantSample() && len(tc.Case.Ops) <= 14 {
			st.Sample(map[string]any{"history": tc.Case.summary(), "rejected_update_at": tc.Pos, "kind": tc.Kind})
		}
		if v != nil {
			st.Report(t, unit, v, tc)
		}
	})
}

func TestVerifC13RejectedTA(t *testing.T)       { c13TwinTest(t, polTA, "rejected-ta") }
func TestVerifC13RejectedBalloons(t *testing.T) { c13TwinTest(t, polBalloons, "rejected-balloons") }

func TestVerifC13RejectedReplay(t *testing.T) {
	tc := &c13TwinCase{}
	rf, ok, err := vfkit.LoadReplay(tc)
	if !ok || !strings.HasPrefix(rf.Unit, "rejected-") {
		t.Skip("no replay file for this unit")
	}
	if err != nil {
		t.Fatalf("replay: %v", err)
	}
	for i := 0; i < 5; i++ {
		if v, _, _ := c13TwinCheck(tc, nil); v != nil {
			vfkit.For(c13).Report(t, rf.Unit, v, tc)
		}
	}
}

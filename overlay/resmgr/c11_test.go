//go:build verif && verifwb

package resmgr

import (
	"encoding/json"
	"fmt"
	"os"
	"os/exec"
	"path/filepath"
	"sort"
	"strings"
	"testing"

	"pgregory.net/rapid"

	"github.com/containers/nri-plugins/pkg/kubernetes"
	"github.com/containers/nri-plugins/pkg/zzverif/vfkit"
)

const c11 = "C11"

// truthOp changes the runtime's state while the plugin is down.
type truthOp struct {
	Kind string     `json:"kind"` // gone | start | stop | newpod | newctr | podgone
	A    int        `json:"a"`
	Pod  *hcPodSpec `json:"pod,omitempty"`
	Ctr  *hcCtrSpec `json:"ctr,omitempty"`
}

type c11Restart struct {
	Truth []truthOp `json:"truth"`
	After []hcOp    `json:"after,omitempty"` // ordinary requests after the synchronization
}

type c11Case struct {
	History  *hcCase      `json:"history"`
	KillAt   int          `json:"kill_at,omitempty"` // >0: SIGKILL at the k-th rename of the cache file (helper process)
	Restarts []c11Restart `json:"restarts"`
}

func applyTruth(m *rtModel, ops []truthOp) {
	for _, op := range ops {
		switch op.Kind {
		case "gone":
			if c, ok := pick(m.ctrsIn(stCreated, stRunning, stStopped), op.A); ok {
				c.State = stRemoved
			}
		case "start":
			if c, ok := pick(m.ctrsIn(stCreated), op.A); ok {
				c.State = stRunning
			}
		case "stop":
			if c, ok := pick(m.ctrsIn(stCreated, stRunning), op.A); ok {
				c.State = stStopped
			}
		case "podgone":
			if p, ok := pick(m.podsIn("running", "stopped"), op.A); ok {
				for _, c := range m.ctrsOfPod(p.ID, stCreated, stRunning, stStopped, stCreateFailed) {
					c.State = stRemoved
				}
				p.State = stRemoved
			}
		case "newpod":
			m.seq++
			id := fmt.Sprintf("p%03d", m.seq)
			m.pods[id] = &rtPod{ID: id, Seq: m.seq, Spec: *op.Pod, State: "running"}
		case "newctr":
			if p, ok := pick(m.podsIn("running"), op.A); ok {
				m.seq++
				id := fmt.Sprintf("c%03d", m.seq)
				spec := *op.Ctr
				spec.Name = fmt.Sprintf("%s-%d", spec.Name, m.seq)
				if p.Spec.QoS == "guaranteed" && spec.MilliCPU == 0 {
					spec.MilliCPU = 100
				}
				c := &rtCtr{ID: id, Pod: p.ID, Seq: m.seq, Spec: spec, State: stRunning, Res: kubeletResources(p.Spec.QoS, &spec),
					ReqMilli: spec.MilliCPU, LimMilli: spec.LimitCPU}
				if p.Spec.QoS == "besteffort" {
					c.ReqMilli = 0
				}
				c.CreateMilli = c.ReqMilli
				m.ctrs[id] = c
			}
		}
	}
	// containers whose creation failed never existed for the runtime
	for _, c := range m.ctrsIn(stCreateFailed) {
		c.State = stRemoved
	}
}

func c11Invs(policy string) []invFn {
	var libs []invFn
	if policy == polTA {
		libs = []invFn{checkTANoStaleHolders, checkTAAllLiveHoldGrant, checkTAExclusive, checkTACapacity, checkTAMemory, checkRuntimeView}
	} else {
		libs = []invFn{checkBalloonsNoStaleHolders, checkBalloons, checkBalloonsMemory, checkRuntimeView}
	}
	libs = append([]invFn{checkNothingUnknownCached}, libs...)
	out := []invFn{}
	for _, lib := range libs {
		lib := lib
		out = append(out, func(e *executor, r *stepResult) *vfkit.Violation {
			v := lib(e, r)
			if v == nil {
				return nil
			}
			if v.Property == c11 {
				return v
			}
			return viol(c11, "after restart + Synchronize: "+v.Clause, "after-restart:"+v.Property+":"+v.Signature, "%s", v.Detail)
		})
	}
	return out
}

// nothing cached that the runtime does not list
func checkNothingUnknownCached(e *executor, r *stepResult) *vfkit.Violation {
	if r.Handler != "Synchronize" {
		return nil
	}
	for _, cc := range e.h.m.cache.GetContainers() {
		c, ok := e.m.ctrs[cc.GetID()]
		if !ok || c.State == stRemoved {
			return viol(c11, "containers the runtime no longer knows are purged", "stale-container-cached", "after %s: %s still cached", r.Desc, cc.GetID())
		}
	}
	for _, cp := range e.h.m.cache.GetPods() {
		p, ok := e.m.pods[cp.GetID()]
		if !ok || p.State == stRemoved {
			return viol(c11, "pods the runtime no longer knows are purged", "stale-pod-cached", "after %s: %s still cached", r.Desc, cp.GetID())
		}
	}
	for _, c := range e.m.ctrsIn(stCreated, stRunning, stStopped) {
		cc, ok := e.h.m.cache.LookupContainer(c.ID)
		if !ok {
			return viol(c11, "containers the runtime reports are cached", "reported-container-not-cached", "after %s: %s (%s) not cached", r.Desc, c.ID, c.State)
		}
		if cc.GetState() != nriState(c.State) {
			return viol(c11, "the cache follows the runtime's report of container states", "cached-state-differs-from-runtime",
				"after %s: %s is %s for the runtime, cached state %v", r.Desc, c.ID, c.State, cc.GetState())
		}
	}
	return nil
}

// runHistory executes H1 on state dir; returns the model at the end.
func c11RunHistory(c *hcCase, dir string, journal string) (*rtModel, *vhConfig, error) {
	h, err := vhStart(c.Policy, c.Topo, dir, c.Config)
	if err != nil {
		return nil, nil, err
	}
	e := &executor{h: h, m: newRtModel(), cfg: c.Config, scratch: map[string]any{}}
	e.m.memCap = kubernetes.GetMemoryCapacity()
	var inFlight *hcOp
	writeJournal := func() {
		if journal == "" {
			return
		}
		b, _ := json.Marshal(struct {
			Model    *rtModelJSON `json:"model"`
			Cfg      *vhConfig    `json:"cfg"`
			InFlight *hcOp        `json:"in_flight,omitempty"`
		}{e.m.toJSON(), e.cfg, inFlight})
		tmp := journal + ".tmp"
		_ = os.WriteFile(tmp, b, 0o644)
		_ = os.Rename(tmp, journal)
	}
	writeJournal()
	for i := range c.Ops {
		op := c.Ops[i]
		if op.Kind == "update" {
			// an update that is in flight when the plugin dies is not applied by the runtime,
			// but the plugin may already have stored its requirements: remember it
			inFlight = &op
			writeJournal()
		}
		func() {
			defer func() { _ = recover() }()
			e.exec(op)
		}()
		inFlight = nil
		writeJournal()
	}
	return e.m, e.cfg, nil
}

type rtModelJSON struct {
	Pods map[string]*rtPod `json:"pods"`
	Ctrs map[string]*rtCtr `json:"ctrs"`
	Seq  int               `json:"seq"`
}

func (m *rtModel) toJSON() *rtModelJSON { return &rtModelJSON{Pods: m.pods, Ctrs: m.ctrs, Seq: m.seq} }

// helper process for mid-request kills
func TestVerifC11Helper(t *testing.T) {
	dir := os.Getenv("VERIF_C11_HELPER_DIR")
	if dir == "" {
		t.Skip("helper only")
	}
	c := &hcCase{}
	b, err := os.ReadFile(os.Getenv("VERIF_C11_HELPER_CASE"))
	if err != nil || json.Unmarshal(b, c) != nil {
		os.Exit(3)
	}
	if _, _, err := c11RunHistory(c, dir, filepath.Join(filepath.Dir(dir), "journal.json")); err != nil {
		os.Exit(4)
	}
	os.Exit(0)
}

// c11Mode lets another property reuse the restart machinery with its own
// generator steering, observer and invariants (C12: opt-outs across restarts).
type c11Mode struct {
	prop  string
	opts  func(policy string) genOpts
	setup func(e *executor)
	invs  func(policy string) []invFn
}

func c11Check(cc *c11Case, st *vfkit.Stats, mode *c11Mode) (v *vfkit.Violation, labels []string, nt bool) {
	base := vhNewStateDir()
	defer vhRemove(base)
	dir := filepath.Join(base, "state")
	_ = os.Mkdir(dir, 0o700)
	var model *rtModel
	cfg := cc.History.Config
	if cc.KillAt > 0 {
		self, _ := os.Executable()
		cf := filepath.Join(base, "case.json")
		b, _ := json.Marshal(cc.History)
		_ = os.WriteFile(cf, b, 0o644)
		cmd := exec.Command("strace", "-f", "-qq", "-o", "/dev/null", "-P", filepath.Join(dir, "cache"), "-P", filepath.Join(dir, "cache.saving"),
			"-e", "trace=renameat", "-e", fmt.Sprintf("inject=renameat:signal=SIGKILL:when=%d", cc.KillAt),
			self, "-test.run", "^TestVerifC11Helper$")
		cmd.Env = append(os.Environ(), "VERIF_C11_HELPER_DIR="+dir, "VERIF_C11_HELPER_CASE="+cf, "VERIF_STATS=", "VERIF_SCRATCH="+base)
		_ = cmd.Run()
		killed := cmd.ProcessState.ExitCode() != 0
		jb, err := os.ReadFile(filepath.Join(base, "journal.json"))
		if err != nil {
			return nil, []string{"helper-produced-no-journal"}, false
		}
		j := struct {
			Model    *rtModelJSON `json:"model"`
			Cfg      *vhConfig    `json:"cfg"`
			InFlight *hcOp        `json:"in_flight,omitempty"`
		}{}
		if json.Unmarshal(jb, &j) != nil || j.Model == nil {
			return nil, []string{"helper-journal-unreadable"}, false
		}
		model = newRtModel()
		// ids are unique in a real runtime: never reuse the id the killed request may have consumed
		model.pods, model.ctrs, model.seq = j.Model.Pods, j.Model.Ctrs, j.Model.Seq+100
		if model.pods == nil {
			model.pods = map[string]*rtPod{}
		}
		if model.ctrs == nil {
			model.ctrs = map[string]*rtCtr{}
		}
		cfg = j.Cfg
		if killed && j.InFlight != nil {
			// the requirements of the update that was being processed may have reached the
			// saved cache although the runtime never applied them (same mechanics as a refused update)
			if c, ok := pick(model.live(), j.InFlight.A); ok {
				fr := c.Spec.MilliCPU
				switch {
				case j.InFlight.Ctr != nil:
					fr = j.InFlight.Ctr.MilliCPU
				case j.InFlight.B == 2:
					fr = c.CreateSpec.MilliCPU
				case j.InFlight.B == 3 && c.PrevSpec != nil:
					fr = c.PrevSpec.MilliCPU
				}
				if model.pods[c.Pod].Spec.QoS == "besteffort" {
					fr = 0
				}
				c.FailedReqs = append(c.FailedReqs, fr)
			}
		}
		if killed {
			labels = append(labels, "killed-inside-a-request")
			nt = true
		} else {
			labels = append(labels, "kill-point-beyond-history")
		}
	} else {
		m, c2, err := c11RunHistory(cc.History, dir, "")
		if err != nil {
			return nil, []string{"config-rejected-at-start"}, false
		}
		model, cfg = m, c2
		labels = append(labels, "clean-cut-at-request-boundary")
	}
	model.memCap = kubernetes.GetMemoryCapacity()
	for i, rs := range cc.Restarts {
		before := fmt.Sprint(len(model.live()))
		applyTruth(model, rs.Truth)
		if len(rs.Truth) > 0 {
			nt = true
			labels = append(labels, "runtime-changed-while-down")
		}
		_ = before
		h, err := vhStart(cc.History.Policy, cc.History.Topo, dir, cfg)
		if err != nil {
			return viol(c11, "the plugin starts with any previously saved cache", "restart-failed", "restart %d: %v", i, err), labels, nt
		}
		e := &executor{h: h, m: model, cfg: cfg, scratch: map[string]any{}}
		for _, c := range model.ctrs {
			c.AllocCfg, c.LaterCfgs = cfg, nil
		}
		ops := append([]hcOp{{Kind: "sync"}}, rs.After...)
		invs := c11Invs(cc.History.Policy)
		if mode != nil {
			invs = mode.invs(cc.History.Policy)
			if mode.setup != nil {
				mode.setup(e)
			}
		}
		for k, op := range ops {
			var r *stepResult
			func() {
				defer func() {
					if p := recover(); p != nil {
						v = viol("C14", "no handler panics", "panic:"+op.Kind, "restart %d op %d: %v", i, k, p)
					}
				}()
				r = e.exec(op)
			}()
			if v != nil {
				return v, labels, nt
			}
			if r.Noop {
				continue
			}
			r.Desc = fmt.Sprintf("restart %d op %d %s", i, k, r.Desc)
			if os.Getenv("VERIF_TRACE") != "" {
				traceStep(e, r)
			}
			for _, inv := range invs {
				if v = inv(e, r); v != nil {
					if vfkit.IsKnown(v) && strings.Contains(v.Signature, "after-failed-request") {
						if st != nil {
							st.KnownHit(v)
						}
						v = nil
						break
					}
					return v, labels, nt
				}
			}
			if e.pendingViolation != nil {
				return e.pendingViolation, labels, nt
			}
		}
	}
	sort.Strings(labels)
	return nil, labels, nt
}

func c11Gen(t *rapid.T, policy string, kill bool, mode *c11Mode) *c11Case {
	var h *hcCase
	o := genOpts{Policy: policy, MinOps: 6, MaxOps: 25, Reconfig: false, FillPools: true, ExclHeavy: policy == polTA}
	if mode != nil {
		o = mode.opts(policy)
	}
	if policy == polTA {
		h = genTACase(t, o)
	} else {
		h = genBalloonsCase(t, o)
	}
	// no Synchronize inside H1 (not needed) - keep histories short
	cc := &c11Case{History: h}
	if kill {
		cc.KillAt = rapid.IntRange(1, 3*len(h.Ops)+4).Draw(t, "killAt")
	}
	nr := rapid.IntRange(1, 3).Draw(t, "restarts")
	for i := 0; i < nr; i++ {
		rs := c11Restart{}
		nt := rapid.IntRange(0, 5).Draw(t, "ntruth")
		for j := 0; j < nt; j++ {
			op := truthOp{Kind: rapid.SampledFrom([]string{"gone", "gone", "start", "stop", "newpod", "newctr", "newctr", "podgone"}).Draw(t, "truthKind"), A: rapid.IntRange(0, 9).Draw(t, "ta")}
			switch op.Kind {
			case "newpod":
				op.Pod = genPod(t, o, ctrNames)
			case "newctr":
				op.Ctr = genCtr(t, o, h.Topo, rapid.SampledFrom([]string{"guaranteed", "burstable", "besteffort"}).Draw(t, "tq"), "n")
			}
			rs.Truth = append(rs.Truth, op)
		}
		if rapid.Bool().Draw(t, "afterOps") {
			after := genOps(t, genOpts{Policy: policy, MinOps: 2, MaxOps: 6, Anns: o.Anns, OptOuts: o.OptOuts, MemPressure: o.MemPressure}, h.Topo, nil)
			rs.After = after
		}
		cc.Restarts = append(cc.Restarts, rs)
	}
	return cc
}

func c11Test(t *testing.T, policy, unit string, kill bool) { c11TestMode(t, policy, unit, kill, nil) }

func c11TestMode(t *testing.T, policy, unit string, kill bool, mode *c11Mode) {
	defer vfkit.Flush()
	st := vfkit.For(c11)
	if mode != nil {
		st = vfkit.For(mode.prop)
	}
	if kill {
		if _, err := exec.LookPath("strace"); err != nil {
			t.Skip("strace not available")
		}
	}
	var best *c11Case
	rapid.Check(t, func(t *rapid.T) {
		cc := c11Gen(t, policy, kill, mode)
		v, labels, nt := c11Check(cc, st, mode)
		if mode != nil && nt {
			// non-trivial for the borrowing property: an opted-out container lived through a restart
			nt = false
			for _, p := range cc.History.Ops {
				if p.Pod != nil {
					for k := range p.Pod.Annotations {
						if strings.Contains(k, "preserve") {
							nt = true
						}
					}
				}
			}
		}
		st.Case(unit, nt, vfkit.Hash(cc), labels...)
		if nt && st.WantSample() && len(cc.History.Ops) <= 12 {
			st.Sample(map[string]any{"history": cc.History.summary(), "kill_at": cc.KillAt, "restarts": cc.Restarts})
		}
		if v != nil && !vfkit.IsKnown(v) {
			// placement after a restart depends on map iteration order inside the code under
			// test: a report must come with a case that shows it again, otherwise it cannot be
			// replayed or triaged (counted, not reported)
			again := false
			for i := 0; i < 6 && !again; i++ {
				if w, _, _ := c11Check(cc, nil, mode); w != nil && w.Signature == v.Signature {
					again = true
				}
			}
			if !again {
				st.Label("violation-not-reproduced-in-6-reruns:" + v.Signature)
				st.SelfCheckFailed()
				v = nil
			}
		}
		if v != nil {
			if best == nil || len(cc.History.Ops) < len(best.History.Ops) {
				best = cc
			}
			st.Report(t, unit, v, best)
		}
	})
}

func TestVerifC11TA(t *testing.T)           { c11Test(t, polTA, "restart-ta", false) }
func TestVerifC11Balloons(t *testing.T)     { c11Test(t, polBalloons, "restart-balloons", false) }
func TestVerifC11KillTA(t *testing.T)       { c11Test(t, polTA, "kill-ta", true) }
func TestVerifC11KillBalloons(t *testing.T) { c11Test(t, polBalloons, "kill-balloons", true) }

func TestVerifC11Replay(t *testing.T) {
	cc := &c11Case{}
	rf, ok, err := vfkit.LoadReplay(cc)
	if !ok {
		t.Skip("no replay file")
	}
	if err != nil {
		t.Fatalf("replay: %v", err)
	}
	for i := 0; i < 10; i++ {
		var mode *c11Mode
		if rf.Property == "C12" {
			mode = c12RestartMode
		}
		if v, _, _ := c11Check(cc, nil, mode); v != nil {
			vfkit.For(rf.Property).Report(t, rf.Unit, v, cc)
			return
		}
	}
}

// ---------------------------------------------------------------- C12 across restarts
var c12RestartMode = &c11Mode{
	prop: "C12",
	opts: func(policy string) genOpts {
		return genOpts{Policy: policy, MinOps: 6, MaxOps: 25, FillPools: true, OptOuts: true, MemPressure: true,
			Topo: vfkit.TopoOpts{MaxCPUs: 32, SmallMem: true, MaxMemNodes: 8}}
	},
	setup: func(e *executor) {
		if e.h.policy == polTA {
			c12SetupTA(e)
		} else {
			c12SetupBln(e)
		}
	},
	invs: func(string) []invFn { return nil },
}

func TestVerifC12RestartTA(t *testing.T) {
	c11TestMode(t, polTA, "ta-optouts-restart", false, c12RestartMode)
}
func TestVerifC12RestartBalloons(t *testing.T) {
	c11TestMode(t, polBalloons, "balloons-optouts-restart", false, c12RestartMode)
}

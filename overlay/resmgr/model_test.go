//go:build verif

package resmgr

import (
	"context"
	"fmt"
	"sort"

	"github.com/containerd/nri/pkg/api"
	"google.golang.org/protobuf/proto"

	"github.com/containers/nri-plugins/pkg/zzverif/vfkit"
)

// ---------------------------------------------------------------------------
// case description: pure data, replayable without rapid
// ---------------------------------------------------------------------------

type hcPodSpec struct {
	Namespace   string            `json:"ns"`
	QoS         string            `json:"qos"` // guaranteed | burstable | besteffort
	Labels      map[string]string `json:"labels,omitempty"`
	Annotations map[string]string `json:"annotations,omitempty"`
}

type hcCtrSpec struct {
	Name     string `json:"name"`
	MilliCPU int64  `json:"mcpu"`           // CPU request
	LimitCPU int64  `json:"lcpu,omitempty"` // CPU limit (Burstable)
	MemLimit int64  `json:"mem,omitempty"`  // bytes
	MemReq   int64  `json:"memreq,omitempty"`
	Cpus     string `json:"cpus,omitempty"` // pre-set cpuset.cpus (what the runtime starts with)
	Mems     string `json:"mems,omitempty"`
}

// hcOp is one abstract operation; targets are resolved as index mod len(candidates).
type hcOp struct {
	Kind string     `json:"op"`
	A    int        `json:"a,omitempty"`
	B    int        `json:"b,omitempty"`
	Pod  *hcPodSpec `json:"pod,omitempty"`
	Ctr  *hcCtrSpec `json:"ctr,omitempty"`
	Cfg  *vhConfig  `json:"cfg,omitempty"`
	Undo bool       `json:"undo,omitempty"` // after a failed create: runtime sends stop+remove
	// several requests delivered concurrently (C15)
	Phase *hcPhase `json:"phase,omitempty"`
}

type hcCase struct {
	Policy string      `json:"policy"`
	Topo   *vfkit.Topo `json:"topo"`
	Config *vhConfig   `json:"config"`
	Ops    []hcOp      `json:"ops"`
	Drain  []int       `json:"drain,omitempty"` // order indices for the final drain (C09)
}

// ---------------------------------------------------------------------------
// runtime model: what a container runtime knows
// ---------------------------------------------------------------------------

type rtRes struct {
	Cpus   string
	Mems   string
	Shares uint64
	Quota  int64
	Period uint64
	Limit  int64
	Swap   int64
}

const (
	stCreateFailed = "create-failed"
	stCreated      = "created"
	stRunning      = "running"
	stStopped      = "stopped"
	stRemoved      = "removed"
)

type rtCtr struct {
	ID    string
	Pod   string
	Seq   int
	Spec  hcCtrSpec
	State string
	Res   rtRes // current runtime-side values
	// bookkeeping for the opt-out property
	InitMems string
	ToldCpus []string // every non-empty cpuset.cpus the plugin sent
	ToldMems []string
	// request as the kubelet encoded it at creation / last update
	ReqMilli int64
	LimMilli int64
	// CPU request at creation (the balloons policy never re-reads it)
	CreateMilli int64
	// fields last written by the kubelet through UpdateContainer (the cache
	// does not record those, so they are not compared until the plugin sets them)
	Dirty map[string]bool
	// configuration in effect when the plugin last (re)allocated this container
	AllocCfg *vhConfig
	// every configuration accepted since: a reconfiguration may or may not
	// have re-allocated the container under it
	LaterCfgs []*vhConfig
	// CPU requests of UpdateContainer calls that the plugin refused
	FailedReqs []int64
	// resources at creation and before the last accepted update (updates may return to them)
	CreateSpec hcCtrSpec
	PrevSpec   *hcCtrSpec
}

type rtPod struct {
	ID    string
	Seq   int
	Spec  hcPodSpec
	State string // running | stopped | removed
}

type rtModel struct {
	pods   map[string]*rtPod
	ctrs   map[string]*rtCtr
	seq    int
	memCap int64
	// onTold is called for everything the plugin tells the runtime, before it is applied
	onTold func(t toldUpdate, c *rtCtr)
}

func newRtModel() *rtModel {
	return &rtModel{pods: map[string]*rtPod{}, ctrs: map[string]*rtCtr{}}
}

func (m *rtModel) podsIn(states ...string) []*rtPod {
	out := []*rtPod{}
	for _, p := range m.pods {
		for _, s := range states {
			if p.State == s {
				out = append(out, p)
			}
		}
	}
	sort.Slice(out, func(i, j int) bool { return out[i].Seq < out[j].Seq })
	return out
}

func (m *rtModel) ctrsIn(states ...string) []*rtCtr {
	out := []*rtCtr{}
	for _, c := range m.ctrs {
		for _, s := range states {
			if c.State == s {
				out = append(out, c)
			}
		}
	}
	sort.Slice(out, func(i, j int) bool { return out[i].Seq < out[j].Seq })
	return out
}

func (m *rtModel) ctrsOfPod(pod string, states ...string) []*rtCtr {
	out := []*rtCtr{}
	for _, c := range m.ctrsIn(states...) {
		if c.Pod == pod {
			out = append(out, c)
		}
	}
	return out
}

func (m *rtModel) live() []*rtCtr { return m.ctrsIn(stCreated, stRunning) }

func pick[T any](list []T, idx int) (T, bool) {
	var zero T
	if len(list) == 0 {
		return zero, false
	}
	if idx < 0 {
		idx = -idx
	}
	return list[idx%len(list)], true
}

// ---------------------------------------------------------------------------
// NRI object construction (as containerd/CRI-O would)
// ---------------------------------------------------------------------------

func (m *rtModel) nriPod(p *rtPod) *api.PodSandbox {
	parent := "/kubepods/pod" + p.ID
	switch p.Spec.QoS {
	case "burstable":
		parent = "/kubepods/burstable/pod" + p.ID
	case "besteffort":
		parent = "/kubepods/besteffort/pod" + p.ID
	}
	pod := &api.PodSandbox{
		Id: p.ID, Name: "pod-" + p.ID, Uid: "uid-" + p.ID, Namespace: p.Spec.Namespace,
		Labels: map[string]string{}, Annotations: map[string]string{},
		Linux: &api.LinuxPodSandbox{CgroupParent: parent},
	}
	for k, v := range p.Spec.Labels {
		pod.Labels[k] = v
	}
	for k, v := range p.Spec.Annotations {
		pod.Annotations[k] = v
	}
	return pod
}

func nriState(s string) api.ContainerState {
	switch s {
	case stCreated:
		return api.ContainerState_CONTAINER_CREATED
	case stRunning:
		return api.ContainerState_CONTAINER_RUNNING
	case stStopped:
		return api.ContainerState_CONTAINER_STOPPED
	}
	return api.ContainerState_CONTAINER_UNKNOWN
}

// nriCtr builds the container object the runtime would send now.
func (m *rtModel) nriCtr(c *rtCtr) *api.Container {
	ctr := &api.Container{
		Id: c.ID, PodSandboxId: c.Pod, Name: c.Spec.Name, State: nriState(c.State),
		Labels: map[string]string{"io.kubernetes.container.name": c.Spec.Name}, Annotations: map[string]string{},
		Linux: &api.LinuxContainer{Resources: &api.LinuxResources{
			Cpu:    &api.LinuxCPU{Cpus: c.Res.Cpus, Mems: c.Res.Mems},
			Memory: &api.LinuxMemory{},
		}},
	}
	if c.Res.Shares != 0 {
		ctr.Linux.Resources.Cpu.Shares = api.UInt64(c.Res.Shares)
	}
	if c.Res.Quota != 0 {
		ctr.Linux.Resources.Cpu.Quota = api.Int64(c.Res.Quota)
	}
	if c.Res.Period != 0 {
		ctr.Linux.Resources.Cpu.Period = api.UInt64(c.Res.Period)
	}
	if c.Res.Limit != 0 {
		ctr.Linux.Resources.Memory.Limit = api.Int64(c.Res.Limit)
	}
	if c.Res.Swap != 0 {
		ctr.Linux.Resources.Memory.Swap = api.Int64(c.Res.Swap)
	}
	pod := m.pods[c.Pod]
	switch pod.Spec.QoS {
	case "guaranteed":
		ctr.Linux.OomScoreAdj = api.Int(-997)
	case "besteffort":
		ctr.Linux.OomScoreAdj = api.Int(1000)
	default:
		adj := int64(999)
		if c.Spec.MemReq > 0 && m.memCap > 0 {
			adj = vfkit.RefBurstableOomAdj(c.Spec.MemReq, m.memCap)
		}
		ctr.Linux.OomScoreAdj = api.Int(int(adj))
	}
	return ctr
}

// kubeletResources encodes a container spec the way the kubelet does.
func kubeletResources(qos string, spec *hcCtrSpec) rtRes {
	r := rtRes{Cpus: spec.Cpus, Mems: spec.Mems}
	switch qos {
	case "guaranteed":
		r.Shares = uint64(vfkit.RefMilliCPUToShares(spec.MilliCPU))
		q, p := vfkit.RefMilliCPUToQuota(spec.MilliCPU)
		r.Quota, r.Period = q, uint64(p)
		r.Limit = spec.MemLimit
	case "burstable":
		r.Shares = uint64(vfkit.RefMilliCPUToShares(spec.MilliCPU))
		if spec.LimitCPU > 0 {
			q, p := vfkit.RefMilliCPUToQuota(spec.LimitCPU)
			r.Quota, r.Period = q, uint64(p)
		}
		r.Limit = spec.MemLimit
	default:
		r.Shares = 2
	}
	return r
}

// ---------------------------------------------------------------------------
// applying what the plugin tells the runtime
// ---------------------------------------------------------------------------

type toldUpdate struct {
	Target string
	Res    *api.LinuxResources
	Kind   string // adjust | update | push
}

func (m *rtModel) apply(u toldUpdate) {
	c, ok := m.ctrs[u.Target]
	if !ok || u.Res == nil {
		return
	}
	if m.onTold != nil {
		m.onTold(u, c)
	}
	if cpu := u.Res.GetCpu(); cpu != nil {
		if cpu.GetCpus() != "" { // empty string = "no change" on the wire
			c.Res.Cpus = cpu.GetCpus()
			c.ToldCpus = append(c.ToldCpus, cpu.GetCpus())
		}
		if cpu.GetMems() != "" {
			c.Res.Mems = cpu.GetMems()
			c.ToldMems = append(c.ToldMems, cpu.GetMems())
		}
		if cpu.GetShares() != nil {
			c.Res.Shares = cpu.GetShares().GetValue()
			delete(c.Dirty, "shares")
		}
		if cpu.GetQuota() != nil {
			c.Res.Quota = cpu.GetQuota().GetValue()
			delete(c.Dirty, "quota")
		}
		if cpu.GetPeriod() != nil {
			c.Res.Period = cpu.GetPeriod().GetValue()
			delete(c.Dirty, "period")
		}
	}
	if mem := u.Res.GetMemory(); mem != nil {
		if mem.GetLimit() != nil {
			c.Res.Limit = mem.GetLimit().GetValue()
			delete(c.Dirty, "limit")
		}
		if mem.GetSwap() != nil {
			c.Res.Swap = mem.GetSwap().GetValue()
			delete(c.Dirty, "swap")
		}
	}
}

// ---------------------------------------------------------------------------
// executing one operation against the real resource manager
// ---------------------------------------------------------------------------

// stepResult is what one request produced, for the invariant libraries.
type stepResult struct {
	Op       hcOp
	Desc     string
	Handler  string
	Target   string // container or pod id the request addressed
	Err      error
	Adjust   *api.ContainerAdjustment
	Updates  []*api.ContainerUpdate   // returned in the reply
	Pushes   [][]*api.ContainerUpdate // unsolicited, after reconfiguration
	Told     []toldUpdate
	Noop     bool
	CfgError error
	PreState map[string]string // model state of every container before the request
	// per-reply findings, judged against the model at the time of each reply
	PreSnap, PostSnap map[string]string // observables around a re-applied configuration
	BadTargets        []string          // updates addressed to containers the runtime has stopped/removed/never had
	DupTargets        []string          // more than one update for a container in one reply/push
	// concurrent phase: the request kind that can have taken a container's allocation away
	LostBy map[string]string
}

// lostBy names the request in which a container can have lost its allocation.
func (r *stepResult) lostBy(id string) string {
	if h, ok := r.LostBy[id]; ok {
		return h
	}
	if h, ok := r.LostBy["*"]; ok {
		return h
	}
	return r.Handler
}

var bg = context.Background()

func cloneCtr(c *api.Container) *api.Container   { return proto.Clone(c).(*api.Container) }
func clonePod(p *api.PodSandbox) *api.PodSandbox { return proto.Clone(p).(*api.PodSandbox) }

// collectReply records one reply (or push) and applies it to the runtime model.
func (r *stepResult) collectReply(m *rtModel, created string, adjust *api.ContainerAdjustment, updates []*api.ContainerUpdate, kind string) {
	told := []toldUpdate{}
	if adjust != nil && created != "" {
		told = append(told, toldUpdate{Target: created, Res: adjust.GetLinux().GetResources(), Kind: "adjust"})
	}
	seen := map[string]bool{}
	for _, u := range updates {
		id := u.GetContainerId()
		if seen[id] {
			r.DupTargets = append(r.DupTargets, id)
		}
		seen[id] = true
		if c, ok := m.ctrs[id]; !ok || (c.State != stCreated && c.State != stRunning) {
			st := "unknown"
			if ok {
				st = c.State
			}
			r.BadTargets = append(r.BadTargets, fmt.Sprintf("%s(%s)", id, st))
		}
		told = append(told, toldUpdate{Target: id, Res: u.GetLinux().GetResources(), Kind: kind})
	}
	for _, t := range told {
		m.apply(t)
	}
	r.Told = append(r.Told, told...)
}

func (r *stepResult) collect(m *rtModel, created string) {
	r.collectReply(m, created, r.Adjust, r.Updates, "update")
	for _, p := range r.Pushes {
		r.collectReply(m, "", nil, p, "push")
	}
}

type executor struct {
	h     *vhHarness
	m     *rtModel
	cfg   *vhConfig // configuration in effect
	steps int
	// a request failed after the policy had changed other containers; those
	// changes stay undelivered until the next successful reply that can carry updates
	failedPending       bool
	failedPendingBefore bool // value of failedPending when the current request started
	// kinds of failed requests whose changes are still undelivered (see noteFailure)
	taintKind    map[string]string
	valuesBefore map[string]string // cacheValues() when the current request started
	// containers that had an undelivered change when a request failed
	tainted map[string]bool
	// a policy event changed containers; no NRI reply has had a chance to carry the change yet
	eventPending       bool
	inRejectedReconfig bool
	rejectedReconfigs  int
	reconfigured       bool // an accepted reconfiguration happened in this history
	// set by onTold-style observers that find a violation while a reply is collected
	pendingViolation *vfkit.Violation
	initial          map[string]string
	scratch          map[string]any
}

func (e *executor) newID(prefix string) (string, int) {
	e.m.seq++
	return fmt.Sprintf("%s%03d", prefix, e.m.seq), e.m.seq
}

func (e *executor) snapshotStates() map[string]string {
	s := map[string]string{}
	for id, c := range e.m.ctrs {
		s[id] = c.State
	}
	return s
}

// exec runs one abstract operation; Noop=true when it had no valid target.
func (e *executor) exec(op hcOp) *stepResult {
	r := &stepResult{Op: op, PreState: e.snapshotStates()}
	e.failedPendingBefore = e.failedPending
	e.valuesBefore = e.cacheValues()
	switch op.Kind {
	case "reconfig", "reconfig-same":
		// a configuration update is delivered by the agent, outside NRI requests
		e.h.stub.enterConfigUpdate("updateConfig")
		defer e.h.stub.enterConfigUpdate("")
	case "coldstartdone", "phase":
		// policy events run outside requests; the lanes of a phase are not sequential
	default:
		e.h.stub.enterRequest(op.Kind)
		defer e.h.stub.enterRequest("")
	}
	m, p := e.m, e.h.m.nri
	switch op.Kind {
	case "pod":
		id, seq := e.newID("p")
		pod := &rtPod{ID: id, Seq: seq, Spec: *op.Pod, State: "running"}
		m.pods[id] = pod
		r.Handler, r.Target = "RunPodSandbox", id
		r.Err = p.RunPodSandbox(bg, m.nriPod(pod))

	case "create", "recreate":
		var pod *rtPod
		spec := *op.Ctr
		if op.Kind == "recreate" {
			// a container of the same name is created again in its pod while the
			// old instance (stopped or even still running, as after a crash) is cached
			old, ok := pick(m.ctrsIn(stCreated, stRunning, stStopped), op.A)
			if !ok {
				r.Noop = true
				return r
			}
			pod = m.pods[old.Pod]
			if pod.State != "running" {
				r.Noop = true
				return r
			}
			spec.Name = old.Spec.Name
			// the runtime considers every earlier instance of that name dead
			for _, prev := range m.ctrsOfPod(pod.ID, stCreated, stRunning) {
				if prev.Spec.Name == spec.Name {
					prev.State = stStopped
				}
			}
		} else {
			var ok bool
			pod, ok = pick(m.podsIn("running"), op.A)
			if !ok {
				r.Noop = true
				return r
			}
			// container names are unique among the live containers of a pod
			n := 0
			for _, c := range m.ctrsOfPod(pod.ID, stCreated, stRunning, stStopped) {
				if c.Spec.Name == spec.Name {
					n++
				}
			}
			if n > 0 {
				spec.Name = fmt.Sprintf("%s-%d", spec.Name, m.seq+1) // unique: container names are unique within a pod
			}
		}
		if pod.Spec.QoS == "guaranteed" && spec.MilliCPU == 0 {
			spec.MilliCPU = 100 // a Guaranteed container always has a CPU request
		}
		id, seq := e.newID("c")
		c := &rtCtr{ID: id, Pod: pod.ID, Seq: seq, Spec: spec, State: stCreated,
			Res: kubeletResources(pod.Spec.QoS, &spec), InitMems: spec.Mems,
			ReqMilli: spec.MilliCPU, LimMilli: spec.LimitCPU}
		if pod.Spec.QoS == "besteffort" {
			c.ReqMilli = 0
		}
		c.CreateMilli = c.ReqMilli
		c.CreateSpec = spec
		m.ctrs[id] = c
		nc := m.nriCtr(c)
		nc.State = api.ContainerState_CONTAINER_UNKNOWN // not created yet from the runtime's view
		r.Handler, r.Target = "CreateContainer", id
		r.Adjust, r.Updates, r.Err = p.CreateContainer(bg, m.nriPod(pod), nc)
		if r.Err != nil {
			c.State = stCreateFailed
			e.failedPending = true
			e.noteFailure("CreateContainer(" + op.Kind + ")")
			e.taintPending()
			r.Desc = fmt.Sprintf("%s(%s)", r.Handler, r.Target)
			r.collect(m, "")
			if op.Undo {
				// containerd undoes a failed creation with stop + remove events
				c.State = stStopped
				ups, serr := p.StopContainer(bg, m.nriPod(pod), m.nriCtr(c))
				r.collectReply(m, "", nil, ups, "update")
				if serr == nil {
					e.delivered() // this reply could carry the left-over updates
				}
				_ = p.RemoveContainer(bg, m.nriPod(pod), m.nriCtr(c))
				c.State = stRemoved
			}
			return r
		}
		c.AllocCfg = e.cfg
		r.collect(m, id)

	case "start":
		c, ok := pick(m.ctrsIn(stCreated), op.A)
		if !ok {
			r.Noop = true
			return r
		}
		c.State = stRunning
		r.Handler, r.Target = "StartContainer", c.ID
		r.Err = p.StartContainer(bg, m.nriPod(m.pods[c.Pod]), m.nriCtr(c))

	case "update":
		c, ok := pick(m.live(), op.A)
		if !ok {
			r.Noop = true
			return r
		}
		pod := m.pods[c.Pod]
		spec := c.Spec
		switch {
		case op.Ctr != nil:
			spec.MilliCPU, spec.LimitCPU, spec.MemLimit = op.Ctr.MilliCPU, op.Ctr.LimitCPU, op.Ctr.MemLimit
		case op.B == 2: // back to the creation-time resources
			spec.MilliCPU, spec.LimitCPU, spec.MemLimit = c.CreateSpec.MilliCPU, c.CreateSpec.LimitCPU, c.CreateSpec.MemLimit
		case op.B == 3 && c.PrevSpec != nil: // back to the resources before the last update
			spec.MilliCPU, spec.LimitCPU, spec.MemLimit = c.PrevSpec.MilliCPU, c.PrevSpec.LimitCPU, c.PrevSpec.MemLimit
		default: // identical resources
		}
		nr := kubeletResources(pod.Spec.QoS, &spec)
		res := &api.LinuxResources{Cpu: &api.LinuxCPU{}, Memory: &api.LinuxMemory{}}
		if nr.Shares != 0 {
			res.Cpu.Shares = api.UInt64(nr.Shares)
		}
		if nr.Quota != 0 {
			res.Cpu.Quota = api.Int64(nr.Quota)
			res.Cpu.Period = api.UInt64(nr.Period)
		}
		if nr.Limit != 0 {
			res.Memory.Limit = api.Int64(nr.Limit)
		}
		r.Handler, r.Target = "UpdateContainer", c.ID
		nc := m.nriCtr(c)
		r.Updates, r.Err = p.UpdateContainer(bg, m.nriPod(pod), nc, res)
		if r.Err != nil {
			fr := spec.MilliCPU
			if pod.Spec.QoS == "besteffort" {
				fr = 0
			}
			c.FailedReqs = append(c.FailedReqs, fr)
		}
		if r.Err == nil {
			// the runtime applies the kubelet's values (unless the plugin overrides them in its reply)
			prev := c.Spec
			c.PrevSpec = &prev
			c.Spec = spec
			// an update re-allocates unless the plugin considers the resources identical
			c.LaterCfgs = append(c.LaterCfgs, e.cfg)
			c.ReqMilli, c.LimMilli = spec.MilliCPU, spec.LimitCPU
			if pod.Spec.QoS == "besteffort" {
				c.ReqMilli = 0
			}
			if c.Dirty == nil {
				c.Dirty = map[string]bool{}
			}
			if c.Res.Shares != nr.Shares {
				c.Dirty["shares"] = true
			}
			if c.Res.Quota != nr.Quota {
				c.Dirty["quota"] = true
			}
			if c.Res.Period != nr.Period {
				c.Dirty["period"] = true
			}
			if c.Res.Limit != nr.Limit {
				c.Dirty["limit"] = true
			}
			c.Res.Shares, c.Res.Quota, c.Res.Period, c.Res.Limit = nr.Shares, nr.Quota, nr.Period, nr.Limit
		}
		r.collect(m, "")

	case "stop":
		c, ok := pick(m.live(), op.A)
		if !ok {
			r.Noop = true
			return r
		}
		c.State = stStopped
		r.Handler, r.Target = "StopContainer", c.ID
		r.Updates, r.Err = p.StopContainer(bg, m.nriPod(m.pods[c.Pod]), m.nriCtr(c))
		r.collect(m, "")

	case "remove":
		c, ok := pick(m.ctrsIn(stStopped, stCreateFailed), op.A)
		if !ok {
			r.Noop = true
			return r
		}
		if c.State == stCreateFailed {
			// the runtime's undo of a failed creation
			ups, serr := p.StopContainer(bg, m.nriPod(m.pods[c.Pod]), m.nriCtr(c))
			c.State = stStopped
			r.collectReply(m, "", nil, ups, "update")
			if serr == nil {
				e.delivered()
			}
		}
		c.State = stRemoved
		r.Handler, r.Target = "RemoveContainer", c.ID
		r.Err = p.RemoveContainer(bg, m.nriPod(m.pods[c.Pod]), m.nriCtr(c))

	case "removelive":
		// a container removed without ever having been stopped (e.g. created, never started)
		c, ok := pick(m.live(), op.A)
		if !ok {
			r.Noop = true
			return r
		}
		c.State = stRemoved
		r.Handler, r.Target = "RemoveContainer", c.ID
		r.Err = p.RemoveContainer(bg, m.nriPod(m.pods[c.Pod]), m.nriCtr(c))
		// The event has no reply that could carry updates of other containers, and a
		// push from inside the handler would block on the runtime's adaptation lock:
		// whatever the release changed for others stays undelivered until the next
		// reply, exactly like the left-overs of a failed request.
		r.collect(m, "")
		if len(e.h.m.cache.GetPendingContainers()) > 0 {
			e.failedPending = true
			e.noteFailure("RemoveContainer(removelive)")
			e.taintPending()
		}

	case "stoppod":
		pod, ok := pick(m.podsIn("running"), op.A)
		if !ok {
			r.Noop = true
			return r
		}
		// containers go first, as the runtime does
		for _, c := range m.ctrsOfPod(pod.ID, stCreated, stRunning) {
			c.State = stStopped
			ups, _ := p.StopContainer(bg, m.nriPod(pod), m.nriCtr(c))
			r.collectReply(m, "", nil, ups, "update")
		}
		pod.State = "stopped"
		r.Handler, r.Target = "StopPodSandbox", pod.ID
		r.Err = p.StopPodSandbox(bg, m.nriPod(pod))

	case "removepod":
		pod, ok := pick(m.podsIn("stopped"), op.A)
		if !ok {
			r.Noop = true
			return r
		}
		for _, c := range m.ctrsOfPod(pod.ID, stStopped, stCreateFailed) {
			c.State = stRemoved
			_ = p.RemoveContainer(bg, m.nriPod(pod), m.nriCtr(c))
		}
		pod.State = stRemoved
		r.Handler, r.Target = "RemovePodSandbox", pod.ID
		r.Err = p.RemovePodSandbox(bg, m.nriPod(pod))

	case "sync":
		pods, ctrs := e.runtimeLists()
		r.Handler = "Synchronize"
		r.Updates, r.Err = p.Synchronize(bg, pods, ctrs)
		// failed creations are unknown to the runtime: after a sync the plugin forgot them
		for _, c := range m.ctrsIn(stCreateFailed) {
			c.State = stRemoved
		}
		for _, c := range m.live() {
			c.AllocCfg = e.cfg
		}
		r.collect(m, "")

	case "reconfig-same":
		// the configuration in effect is delivered again
		r.Handler = "updateConfig(identical)"
		r.PreSnap = e.observables()
		r.CfgError = e.h.reconfigure(e.cfg)
		r.Pushes = e.h.stub.takePushes()
		r.collect(m, "")
		r.PostSnap = e.observables()

	case "reconfig":
		r.Handler = "updateConfig"
		r.CfgError = e.h.reconfigure(op.Cfg)
		e.inRejectedReconfig = r.CfgError != nil
		defer func() { e.inRejectedReconfig = false }()
		r.Pushes = e.h.stub.takePushes()
		if r.CfgError == nil {
			e.cfg = op.Cfg
			e.reconfigured = true
			for _, c := range m.live() {
				c.LaterCfgs = append(c.LaterCfgs, op.Cfg)
			}
		} else {
			e.rejectedReconfigs++
		}
		r.collect(m, "")

	case "coldstartdone":
		c, ok := pick(m.live(), op.A)
		if !ok || e.h.policy != polTA {
			r.Noop = true
			return r
		}
		r.Handler, r.Target = "ColdStartDone", c.ID
		_, r.Err = e.h.coldStartDone(c.ID)
		// changes made by an event are not returned by any request; they stay
		// pending until the next reply. Not part of the C05 contract.
	case "phase":
		r.Desc = "concurrent-phase"
		e.execPhase(op, r)
	default:
		panic("unknown op " + op.Kind)
	}
	r.Desc = fmt.Sprintf("%s(%s)", r.Handler, r.Target)
	switch r.Handler {
	case "CreateContainer", "UpdateContainer", "StopContainer", "Synchronize", "updateConfig":
		if r.Err != nil || r.CfgError != nil {
			e.noteFailure(r.Handler)
			e.failedPending = true // (a rejected configuration update is a failed request, too)
			e.taintPending()
		} else if r.CfgError == nil {
			e.delivered()
			e.eventPending = false
		}
	case "ColdStartDone":
		e.eventPending = true
	}
	e.steps++
	return r
}

// runtimeLists returns what the runtime would report in Synchronize.
func (e *executor) runtimeLists() ([]*api.PodSandbox, []*api.Container) {
	var pods []*api.PodSandbox
	var ctrs []*api.Container
	for _, p := range e.m.podsIn("running", "stopped") {
		pods = append(pods, e.m.nriPod(p))
	}
	for _, c := range e.m.ctrsIn(stCreated, stRunning, stStopped) {
		ctrs = append(ctrs, e.m.nriCtr(c))
	}
	return pods, ctrs
}

// cacheValues fingerprints what the cache records for every container the
// model considers live (the values C05 compares with the runtime's view).
func (e *executor) cacheValues() map[string]string {
	out := map[string]string{}
	for _, c := range e.m.live() {
		if cc, ok := e.h.m.cache.LookupContainer(c.ID); ok {
			out[c.ID] = fmt.Sprintf("%s|%s|%d|%d|%d|%d", cc.GetCpusetCpus(), cc.GetCpusetMems(), cc.GetCPUShares(), cc.GetCPUQuota(), cc.GetCPUPeriod(), cc.GetMemoryLimit())
		}
	}
	return out
}

// noteFailure records, per live container, the kind of failed request
// ("<handler>(<op kind>)") that changed its cached values without being able
// to deliver the change. A failed request that changed nothing records nothing.
func (e *executor) noteFailure(kind string) {
	for id, after := range e.cacheValues() {
		if before, ok := e.valuesBefore[id]; ok && before != after {
			if e.taintKind == nil {
				e.taintKind = map[string]string{}
			}
			e.taintKind[id] = kind
		}
	}
}

// delivered forgets the attribution of undelivered changes: a reply that can
// carry updates has been returned.
func (e *executor) delivered() {
	e.failedPending = false
	e.taintKind = nil
}

// failedKind names the failed request that last changed container id without delivering the change.
func (e *executor) failedKind(id string) string {
	if k, ok := e.taintKind[id]; ok {
		return k
	}
	return "unattributed"
}

func (e *executor) taintPending() {
	if e.tainted == nil {
		e.tainted = map[string]bool{}
	}
	for _, pc := range e.h.m.cache.GetPendingContainers() {
		e.tainted[pc.GetID()] = true
	}
}

// observables summarises what a user can see: per live container the runtime
// view and the cache view, and the advertised zones (order-normalised).
func (e *executor) observables() map[string]string {
	out := map[string]string{}
	for _, c := range e.m.live() {
		out["rt:"+c.ID] = fmt.Sprintf("cpus=%s mems=%s shares=%d quota=%d period=%d limit=%d",
			vfkit.MustParseIDSet(c.Res.Cpus), vfkit.MustParseIDSet(c.Res.Mems), c.Res.Shares, c.Res.Quota, c.Res.Period, c.Res.Limit)
		if cc, ok := e.h.m.cache.LookupContainer(c.ID); ok {
			out["cache:"+c.ID] = fmt.Sprintf("cpus=%s mems=%s shares=%d", vfkit.MustParseIDSet(cc.GetCpusetCpus()), vfkit.MustParseIDSet(cc.GetCpusetMems()), cc.GetCPUShares())
		}
	}
	for _, z := range e.h.m.policy.GetTopologyZones() {
		attrs := []string{}
		for _, a := range z.Attributes {
			v := a.Value
			if s, err := vfkit.ParseIDSet(v); err == nil {
				v = s.String()
			}
			attrs = append(attrs, a.Name+"="+v)
		}
		sort.Strings(attrs)
		res := []string{}
		for _, r := range z.Resources {
			res = append(res, fmt.Sprintf("%s:%s/%s/%s", r.Name, r.Capacity.String(), r.Allocatable.String(), r.Available.String()))
		}
		sort.Strings(res)
		out["zone:"+z.Name+"<"+z.Parent] = fmt.Sprintf("%s %v %v", z.Type, attrs, res)
	}
	if wbObservables != nil {
		wbObservables(e, out)
	}
	return out
}

// wbObservables adds what only the white-box hooks can see (set by a verifwb file).
var wbObservables func(e *executor, out map[string]string)

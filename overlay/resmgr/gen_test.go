//go:build verif

package resmgr

import (
	"fmt"

	"pgregory.net/rapid"

	polcfg "github.com/containers/nri-plugins/pkg/apis/config/v1alpha1/resmgr/policy"
	blncfg "github.com/containers/nri-plugins/pkg/apis/config/v1alpha1/resmgr/policy/balloons"
	tacfg "github.com/containers/nri-plugins/pkg/apis/config/v1alpha1/resmgr/policy/topologyaware"
	"github.com/containers/nri-plugins/pkg/zzverif/vfkit"
)

const nsKey = "resource-policy.nri.io"

var _ = blncfg.Config{}

// genOpts steer the workload/config generators per property.
type genOpts struct {
	Policy           string
	MaxOps           int
	MinOps           int
	Reconfig         bool // generate reconfigurations
	FillPools        bool // many sub-core / burstable containers with large fractions
	OptOuts          bool // 20-50% of containers carry an opt-out
	MemPressure      bool // memory limits that overflow nodes
	FailingReqs      bool // requests that are expected to fail
	ColdStart        bool
	NoUpdates        bool
	WantIsolatedCtrs bool // most pods prefer kernel-isolated CPUs
	UpdateHeavy      bool // a third of the requests are UpdateContainer, many returning to earlier resources
	ExclHeavy        bool // many Guaranteed whole-CPU containers in ordinary namespaces
	PinAlways        bool // pinCPU/pinMemory always on
	NoHideHT         bool
	Anns             []annGen // annotation vocabulary (nil = topology-aware set)
	Topo             vfkit.TopoOpts
}

func ptr[T any](v T) *T { return &v }

func genBoolPtr(t *rapid.T, label string) *bool {
	switch rapid.IntRange(0, 2).Draw(t, label) {
	case 1:
		return ptr(true)
	case 2:
		return ptr(false)
	}
	return nil
}

// genSubset draws a subset of ids, dropping each with probability ~1/dropOneIn.
func genSubset(t *rapid.T, ids []int, dropOneIn int, label string) vfkit.IDSet {
	s := vfkit.IDSet{}
	for _, id := range ids {
		if rapid.IntRange(0, dropOneIn-1).Draw(t, label) != 0 {
			s.Add(id)
		}
	}
	return s
}

// genTAConfig draws a topology-aware configuration for the machine. Reserved
// cpusets never contain kernel-isolated CPUs (excluded by the properties).
func genTAConfig(t *rapid.T, topo *vfkit.Topo, o genOpts) *tacfg.Config {
	c := &tacfg.Config{
		PinCPU:             o.PinAlways || rapid.IntRange(0, 9).Draw(t, "pinCPU") != 0,
		PinMemory:          o.PinAlways || rapid.IntRange(0, 5).Draw(t, "pinMemory") != 0,
		PreferIsolated:     genBoolPtr(t, "preferIsolated"),
		PreferShared:       genBoolPtr(t, "preferShared"),
		ColocatePods:       rapid.Bool().Draw(t, "colocatePods"),
		ColocateNamespaces: rapid.Bool().Draw(t, "colocateNamespaces"),
		ReservedResources:  polcfg.Constraints{},
	}
	if rapid.Bool().Draw(t, "reservedNamespaces") {
		c.ReservedPoolNamespaces = []string{"reserved-*", "monitoring"}
	}
	c.DefaultCPUPriority = tacfg.CPUPriority(rapid.SampledFrom([]string{"", "", "high", "normal", "low", "none"}).Draw(t, "defaultPrio"))

	online := topo.OnlineCPUs()
	avail := online
	if rapid.IntRange(0, 2).Draw(t, "availableSet") == 0 {
		avail = genSubset(t, online.Sorted(), 6, "availCPU")
		if avail.Size() < 2 {
			avail = online
		}
		c.AvailableResources = polcfg.Constraints{polcfg.CPU: polcfg.Amount("cpuset:" + avail.String())}
	}
	cand := avail.Minus(topo.IsolatedCPUs()).Sorted()
	if len(cand) > 0 && rapid.Bool().Draw(t, "reservedAsSet") {
		n := rapid.IntRange(1, 2).Draw(t, "nReserved")
		res := vfkit.IDSet{}
		for i := 0; i < n && i < len(cand); i++ {
			res.Add(cand[rapid.IntRange(0, len(cand)-1).Draw(t, "reservedCPU")])
		}
		c.ReservedResources[polcfg.CPU] = polcfg.Amount("cpuset:" + res.String())
	} else {
		c.ReservedResources[polcfg.CPU] = polcfg.Amount(rapid.SampledFrom([]string{"750m", "1", "1500m", "2"}).Draw(t, "reservedQty"))
	}
	return c
}

var cpuBoundary = []int64{0, 1, 2, 100, 250, 500, 999, 1000, 1001, 1500, 1999, 2000, 2001, 2500, 3000, 4000, 6000}

func genMilli(t *rapid.T, label string, maxCPUs int) int64 {
	v := rapid.SampledFrom(cpuBoundary).Draw(t, label)
	for v > int64(maxCPUs)*1000 && v > 1000 {
		v -= 1000
	}
	return v
}

type annGen struct {
	key    string
	values []string
}

var taAnnotations = []annGen{
	{"prefer-shared-cpus", []string{"true", "false"}},
	{"prefer-isolated-cpus", []string{"true", "false"}},
	{"prefer-reserved-cpus", []string{"true", "false"}},
	{"hide-hyperthreads", []string{"true", "false"}},
	{"prefer-cpu-priority", []string{"high", "normal", "low", "none", "default"}},
	{"memory-type", []string{"dram", "pmem", "hbm", "dram,pmem", "mixed"}},
}

func annKey(key, form, ctr string) string {
	k := key + "." + nsKey
	switch form {
	case "pod":
		return k + "/pod"
	case "container":
		return k + "/container." + ctr
	}
	return k
}

func genPod(t *rapid.T, o genOpts, ctrNames []string) *hcPodSpec {
	p := &hcPodSpec{
		Namespace:   rapid.SampledFrom([]string{"default", "default", "default", "kube-system", "reserved-a", "monitoring", "prod", "dev"}).Draw(t, "ns"),
		QoS:         rapid.SampledFrom([]string{"guaranteed", "guaranteed", "guaranteed", "burstable", "burstable", "besteffort"}).Draw(t, "qos"),
		Labels:      map[string]string{"app": rapid.SampledFrom([]string{"web", "db", "batch"}).Draw(t, "app")},
		Annotations: map[string]string{},
	}
	if o.FillPools {
		p.QoS = rapid.SampledFrom([]string{"guaranteed", "guaranteed", "burstable", "burstable", "besteffort"}).Draw(t, "qosFill")
	}
	if o.ExclHeavy && rapid.IntRange(0, 3).Draw(t, "exclPod") != 0 {
		p.QoS = "guaranteed"
		p.Namespace = rapid.SampledFrom([]string{"default", "prod", "dev"}).Draw(t, "exclNs")
	}
	nann := rapid.SampledFrom([]int{0, 0, 1, 1, 2, 3}).Draw(t, "nann")
	for i := 0; i < nann; i++ {
		anns := o.Anns
		if anns == nil {
			anns = taAnnotations
		}
		a := rapid.SampledFrom(anns).Draw(t, "ann")
		form := rapid.SampledFrom([]string{"bare", "pod", "container"}).Draw(t, "annForm")
		ctr := rapid.SampledFrom(ctrNames).Draw(t, "annCtr")
		p.Annotations[annKey(a.key, form, ctr)] = rapid.SampledFrom(a.values).Draw(t, "annValue")
	}
	if o.WantIsolatedCtrs && rapid.IntRange(0, 2).Draw(t, "wantIsolated") != 0 {
		p.Annotations[annKey("prefer-isolated-cpus", rapid.SampledFrom([]string{"bare", "pod"}).Draw(t, "isoForm"), "")] = "true"
		p.QoS = "guaranteed"
	}
	if o.OptOuts && rapid.IntRange(0, 2).Draw(t, "optout") == 0 {
		form := rapid.SampledFrom([]string{"bare", "pod", "container"}).Draw(t, "ooForm")
		ctr := rapid.SampledFrom(ctrNames).Draw(t, "ooCtr")
		switch rapid.IntRange(0, 2).Draw(t, "ooKind") {
		case 0:
			p.Annotations[annKey("cpu.preserve", form, ctr)] = "true"
		case 1:
			p.Annotations[annKey("memory.preserve", form, ctr)] = "true"
		default:
			p.Annotations[annKey("cpu.preserve", form, ctr)] = "true"
			p.Annotations[annKey("memory.preserve", form, ctr)] = "true"
		}
	}
	if o.ColdStart && rapid.IntRange(0, 3).Draw(t, "coldstart") == 0 {
		form := rapid.SampledFrom([]string{"bare", "pod", "container"}).Draw(t, "csForm")
		ctr := rapid.SampledFrom(ctrNames).Draw(t, "csCtr")
		p.Annotations[annKey("cold-start", form, ctr)] = "duration: 60s"
		p.Annotations[annKey("memory-type", form, ctr)] = "dram,pmem"
	}
	if o.FailingReqs && rapid.IntRange(0, 9).Draw(t, "badAnn") == 0 {
		p.Annotations[annKey("memory-type", "bare", "")] = "bogus"
	}
	return p
}

func genCtr(t *rapid.T, o genOpts, topo *vfkit.Topo, qos string, name string) *hcCtrSpec {
	maxCPUs := topo.OnlineCPUs().Size()
	c := &hcCtrSpec{Name: name}
	switch qos {
	case "guaranteed":
		c.MilliCPU = genMilli(t, "mcpu", maxCPUs)
		if c.MilliCPU == 0 {
			c.MilliCPU = 100
		}
		if o.FillPools && rapid.Bool().Draw(t, "fillFraction") {
			c.MilliCPU = int64(rapid.SampledFrom([]int{300, 600, 900, 950, 1200, 1900}).Draw(t, "fill"))
		}
		if o.ExclHeavy && rapid.IntRange(0, 3).Draw(t, "exclCtr") != 0 {
			c.MilliCPU = int64(rapid.SampledFrom([]int{1000, 1000, 1000, 2000, 1500, 1250, 3000}).Draw(t, "excl"))
			for c.MilliCPU > int64(maxCPUs)*500 && c.MilliCPU > 1000 {
				c.MilliCPU -= 1000
			}
		}
		c.LimitCPU = c.MilliCPU
	case "burstable":
		c.MilliCPU = genMilli(t, "mcpu", maxCPUs)
		if o.FillPools {
			c.MilliCPU = int64(rapid.SampledFrom([]int{100, 500, 900, 1500, 2500}).Draw(t, "fill"))
		}
		if rapid.Bool().Draw(t, "hasLimit") {
			c.LimitCPU = c.MilliCPU + int64(rapid.SampledFrom([]int{0, 500, 1000}).Draw(t, "limitExtra"))
		}
	}
	// memory: relative to node sizes so that zones overflow
	nodes := topo.MemNodes().Sorted()
	if len(nodes) > 0 && qos != "besteffort" {
		n := nodes[rapid.IntRange(0, len(nodes)-1).Draw(t, "memNode")]
		capa := topo.NodeCapacityBytes(n)
		fr := []int64{0, 1, 10, 10, 30}
		if o.MemPressure {
			fr = []int64{0, 10, 40, 60, 60, 90, 110, 150}
		}
		c.MemLimit = capa / 100 * rapid.SampledFrom(fr).Draw(t, "memFrac")
		if qos == "burstable" && c.MemLimit > 0 && rapid.Bool().Draw(t, "memReq") {
			c.MemReq = c.MemLimit / 2
		}
	}
	if o.OptOuts {
		// opted-out containers start with whatever the runtime gave them
		on := topo.OnlineCPUs().Sorted()
		if rapid.Bool().Draw(t, "presetCpus") {
			c.Cpus = vfkit.NewIDSet(on[rapid.IntRange(0, len(on)-1).Draw(t, "presetCpu")]).String()
		}
		if len(nodes) > 0 && rapid.Bool().Draw(t, "presetMems") {
			ms := vfkit.NewIDSet(nodes[rapid.IntRange(0, len(nodes)-1).Draw(t, "presetMem")])
			// (a runtime-given set may span several nodes: the allocator then tracks a multi-node zone)
			for k := rapid.SampledFrom([]int{0, 0, 1, 2}).Draw(t, "presetMemExtra"); k > 0; k-- {
				ms.Add(nodes[rapid.IntRange(0, len(nodes)-1).Draw(t, "presetMem")])
			}
			c.Mems = ms.String()
		}
	}
	return c
}

var ctrNames = []string{"c0", "c1", "c2", "sidecar"}

// genOps draws an abstract operation list. Every operation is valid in any
// state (operations without a target degrade to unrecorded no-ops).
func genOps(t *rapid.T, o genOpts, topo *vfkit.Topo, genCfg func(t *rapid.T) *vhConfig) []hcOp {
	n := rapid.IntRange(o.MinOps, o.MaxOps).Draw(t, "nops")
	ops := []hcOp{}
	qosOf := []string{}
	addPod := func() {
		pod := genPod(t, o, ctrNames)
		ops = append(ops, hcOp{Kind: "pod", Pod: pod})
		qosOf = append(qosOf, pod.QoS)
		// usually followed by its first container
		if rapid.IntRange(0, 4).Draw(t, "withCtr") != 0 {
			ops = append(ops, hcOp{Kind: "create", A: len(qosOf) - 1,
				Ctr: genCtr(t, o, topo, pod.QoS, rapid.SampledFrom(ctrNames).Draw(t, "cname")), Undo: rapid.Bool().Draw(t, "undo")})
		}
	}
	addPod()
	kinds := []string{"pod", "pod", "create", "create", "create", "create", "start", "start", "stop", "stop", "remove", "remove", "stoppod", "removepod", "sync", "recreate", "removelive"}
	if !o.NoUpdates {
		kinds = append(kinds, "update", "update")
		if o.UpdateHeavy {
			kinds = append(kinds, "update", "update", "update", "update", "update", "update")
		}
	}
	if o.Reconfig && genCfg != nil {
		kinds = append(kinds, "reconfig")
	}
	if o.ColdStart {
		kinds = append(kinds, "coldstartdone", "start")
	}
	for len(ops) < n {
		k := rapid.SampledFrom(kinds).Draw(t, "kind")
		op := hcOp{Kind: k, A: rapid.IntRange(0, 11).Draw(t, "a")}
		switch k {
		case "pod":
			addPod()
			continue
		case "create", "recreate":
			// the QoS class of the target pod is only known at execution time; the
			// spec carries values for every class and the executor picks by class
			qos := rapid.SampledFrom([]string{"guaranteed", "guaranteed", "burstable", "besteffort"}).Draw(t, "ctrQos")
			op.Ctr = genCtr(t, o, topo, qos, rapid.SampledFrom(ctrNames).Draw(t, "cname"))
			op.Undo = rapid.Bool().Draw(t, "undo")
		case "update":
			hi := 5
			if o.UpdateHeavy {
				hi = 3
				op.A = rapid.IntRange(0, 2).Draw(t, "updTarget") // few targets: updates hit the same containers again
			}
			switch rapid.IntRange(0, hi).Draw(t, "identical") {
			case 0: // the resources the container already has
			case 1:
				op.B = 2 // back to the resources it was created with
			case 2:
				op.B = 3 // back to the resources it had before its last update
			default:
				qos := rapid.SampledFrom([]string{"guaranteed", "burstable"}).Draw(t, "updQos")
				op.Ctr = genCtr(t, o, topo, qos, "x")
			}
		case "reconfig":
			op.Cfg = genCfg(t)
		}
		if k == "update" && !o.UpdateHeavy && rapid.IntRange(0, 4).Draw(t, "refusedThenStopped") == 0 {
			// an update the policy has to refuse (more CPUs than the machine has), then the
			// same container is stopped: the next reply-carrying request addresses a container
			// that itself has undelivered changes
			big := int64(topo.OnlineCPUs().Size()+2) * 1000
			op.B, op.Ctr = 0, &hcCtrSpec{Name: "x", MilliCPU: big, LimitCPU: big}
			ops = append(ops, op, hcOp{Kind: "stop", A: op.A})
			continue
		}
		ops = append(ops, op)
	}
	return ops
}

func genOpsWith(t *rapid.T, o genOpts, topo *vfkit.Topo, anns []annGen, genCfg func(t *rapid.T) *vhConfig) []hcOp {
	o.Anns = anns
	return genOps(t, o, topo, genCfg)
}

func genTACase(t *rapid.T, o genOpts) *hcCase {
	to := o.Topo
	if to.MaxCPUs == 0 {
		to.MaxCPUs = 32
	}
	topo := vfkit.GenTopo(t, to)
	cfg := &vhConfig{TA: genTAConfig(t, topo, o)}
	c := &hcCase{Policy: polTA, Topo: topo, Config: cfg}
	c.Ops = genOps(t, o, topo, func(t *rapid.T) *vhConfig {
		switch rapid.IntRange(0, 5).Draw(t, "sameCfg") {
		case 0:
			return cfg.clone()
		case 1:
			// valid in itself but too small for a machine full of containers: rejected late,
			// after the policy has started to move existing allocations
			small := cfg.clone()
			on := topo.OnlineCPUs().Minus(topo.IsolatedCPUs()).Sorted()
			if len(on) >= 2 {
				small.TA.AvailableResources = polcfg.Constraints{polcfg.CPU: polcfg.Amount(fmt.Sprintf("cpuset:%d,%d", on[0], on[1]))}
				small.TA.ReservedResources = polcfg.Constraints{polcfg.CPU: polcfg.Amount(fmt.Sprintf("cpuset:%d", on[0]))}
			}
			return small
		}
		return &vhConfig{TA: genTAConfig(t, topo, o)}
	})
	return c
}

func (c *hcCase) summary() map[string]any {
	ops := []string{}
	for _, op := range c.Ops {
		s := op.Kind
		if op.Ctr != nil {
			s += fmt.Sprintf("[%s %dm mem=%d]", op.Ctr.Name, op.Ctr.MilliCPU, op.Ctr.MemLimit)
		}
		if op.Pod != nil {
			s += fmt.Sprintf("[%s/%s %v]", op.Pod.Namespace, op.Pod.QoS, op.Pod.Annotations)
		}
		ops = append(ops, s)
	}
	return map[string]any{"policy": c.Policy, "machine": c.Topo.Shape, "config": c.Config, "ops": ops}
}

//go:build verif && verifwb

package resmgr

import "github.com/containers/nri-plugins/pkg/zzverif/vfkit"

// installOptOutObserver wires the C12 oracle into the runtime model: every
// adjustment/update/push addressed to an opted-out container must leave its
// cpuset.cpus alone (CPU opt-out) and must not change its cpuset.mems
// (memory opt-out).
func installOptOutObserver(e *executor, cpuOptOut, memOptOut func(c *rtCtr) bool) {
	e.m.onTold = func(t toldUpdate, c *rtCtr) {
		// once something is delivered to a container, nothing decided before a failed
		// request is left undelivered for it
		defer delete(e.tainted, t.Target)
		if e.pendingViolation != nil || t.Res == nil {
			return
		}
		cpu := t.Res.GetCpu()
		if cpu == nil {
			return
		}
		if cpuOptOut(c) && cpu.GetCpus() != "" && !sameSet(cpu.GetCpus(), c.Res.Cpus) {
			// (an echo of the cpuset the runtime already has, as the identical-resources
			// short-circuit of UpdateContainer sends, changes nothing and is not counted)
			e.pendingViolation = viol("C12", "a container opted out of CPU pinning is never told a CPU set", "cpuset-told-to-cpu-opt-out:"+optKind(e, t),
				"%s %s of container %s (pod annotations %v) carries cpuset.cpus %q", t.Kind, "for", c.ID, e.m.pods[c.Pod].Spec.Annotations, cpu.GetCpus())
			return
		}
		if memOptOut(c) && cpu.GetMems() != "" && !sameSet(cpu.GetMems(), c.Res.Mems) {
			e.pendingViolation = viol("C12", "a container opted out of memory pinning is never told different memory nodes", "mems-told-to-memory-opt-out:"+optKind(e, t),
				"%s for container %s (pod annotations %v) carries cpuset.mems %q, it had %q", t.Kind, c.ID, e.m.pods[c.Pod].Spec.Annotations, cpu.GetMems(), c.Res.Mems)
		}
	}
}

var _ = vfkit.Hash

func optKind(e *executor, t toldUpdate) string {
	if e.inRejectedReconfig {
		return t.Kind + "-of-leftovers-from-a-rejected-reconfiguration"
	}
	if (e.failedPendingBefore || e.tainted[t.Target]) && t.Kind != "adjust" {
		// decided before the container was opted out (or for its neighbours) while
		// processing a request that then failed; delivered late (the C05 finding)
		return t.Kind + ":after-failed-request"
	}
	return t.Kind
}

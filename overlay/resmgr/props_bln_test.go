//go:build verif && verifwb

package resmgr

import (
	blncfg "github.com/containers/nri-plugins/pkg/apis/config/v1alpha1/resmgr/policy/balloons"
	"testing"

	"pgregory.net/rapid"

	"github.com/containers/nri-plugins/pkg/zzverif/vfkit"
)

// ---------------------------------------------------------------- C02
func c02Observe(e *executor, r *stepResult, ri *runInfo) {
	v := e.blnView()
	if v.snap == nil {
		return
	}
	if e.scratch["sizes"] == nil {
		e.scratch["sizes"] = map[string]int{}
	}
	sizes := e.scratch["sizes"].(map[string]int)
	user := 0
	seen := map[string]bool{}
	for _, b := range v.snap.Balloons {
		n := 0
		for _, c := range b.Pods {
			n += len(c)
		}
		if n > 0 && b.Def != "reserved" && b.Def != "default" {
			user++
		}
		sz := set(b.Cpus).Size()
		if old, ok := sizes[b.Name]; ok {
			if sz > old {
				e.scratch["inflate"] = true
			}
			if sz < old {
				e.scratch["deflate"] = true
			}
		}
		sizes[b.Name] = sz
		seen[b.Name] = true
		if !set(b.SharedIdle).Empty() {
			ri.label("idle-sharing-active")
		}
	}
	for name := range sizes {
		if !seen[name] {
			delete(sizes, name)
			ri.label("balloon-deleted")
			e.scratch["deflate"] = true
		}
	}
	if user >= 2 {
		e.scratch["two-user"] = true
		ri.label("2+-user-balloons-non-empty")
	}
	if e.scratch["two-user"] == true && e.scratch["inflate"] == true && e.scratch["deflate"] == true {
		ri.nt = true
	}
	for _, d := range v.snap.Defs {
		if d.HideHT {
			ri.label("hidden-hyperthreads-type")
		}
	}
	if r.Op.Kind == "reconfig" && r.CfgError == nil {
		ri.label("reconfigured")
	}
}

var c02 = &propTest{
	prop: "C02", unit: "balloons",
	gen: func(t *rapid.T) *hcCase {
		return genBalloonsCase(t, genOpts{Policy: polBalloons, MinOps: 10, MaxOps: 40, Reconfig: true, FillPools: true})
	},
	invs:    []invFn{checkBalloons},
	observe: c02Observe,
}

func TestVerifC02(t *testing.T)       { c02.run(t) }
func TestVerifC02Replay(t *testing.T) { c02.replay(t) }

// ---------------------------------------------------------------- C05 (balloons part)
var c05Bln = &propTest{
	prop: "C05", unit: "balloons-histories",
	gen: func(t *rapid.T) *hcCase {
		c := genBalloonsCase(t, genOpts{Policy: polBalloons, MinOps: 8, MaxOps: 40, Reconfig: true, FillPools: true, MemPressure: true,
			Topo: vfkit.TopoOpts{MaxCPUs: 32, SmallMem: true, MaxMemNodes: 8}})
		switch rapid.IntRange(0, 5).Draw(t, "c05Motif") {
		case 0, 1:
			blnDiscardedBalloonMotif(t, c)
		case 2:
			failureOnLeftoversMotif(t, c)
		}
		return c
	},
	invs:    []invFn{checkRuntimeView},
	observe: c05Observe,
}

func TestVerifC05Balloons(t *testing.T)       { c05Bln.run(t) }
func TestVerifC05BalloonsReplay(t *testing.T) { c05Bln.replay(t) }

// ---------------------------------------------------------------- C04 (balloons part)
var c04Bln = &propTest{
	prop: "C04", unit: "balloons-memory",
	gen: func(t *rapid.T) *hcCase {
		return genBalloonsCase(t, genOpts{Policy: polBalloons, MinOps: 10, MaxOps: 40, Reconfig: true, MemPressure: true, OptOuts: true,
			Topo: vfkit.TopoOpts{MaxCPUs: 32, SmallMem: true, MaxMemNodes: 8}})
	},
	invs:    []invFn{checkBalloonsMemory},
	observe: c04Observe,
}

func TestVerifC04Balloons(t *testing.T)       { c04Bln.run(t) }
func TestVerifC04BalloonsReplay(t *testing.T) { c04Bln.replay(t) }

// ---------------------------------------------------------------- C09 (balloons part)
func c09FinalBln(e *executor, ri *runInfo) *vfkit.Violation {
	c := e.scratchCase()
	drain(e, c.Drain)
	after := e.blnQuiescent()
	if n := len(e.h.m.cache.GetContainers()); n != 0 {
		return viol("C09", "cache has no containers at quiescence", "containers-left-in-cache", "%d containers cached after the drain", n)
	}
	dir := vhNewStateDir()
	defer vhRemove(dir)
	h2, err := vhStart(e.h.policy, e.h.topo, dir, e.cfg)
	if err != nil {
		return nil
	}
	pristine := (&executor{h: h2, m: newRtModel(), cfg: e.cfg}).blnQuiescent()
	if d := diffMaps(pristine, after); len(d) > 0 {
		return viol("C09", "releasing everything restores the pristine state", "state-after-drain-differs-from-pristine", "%v", d)
	}
	return nil
}

var c09Bln = &propTest{
	prop: "C09", unit: "balloons-leaks",
	invs:    []invFn{checkBalloonsNoStaleHolders},
	observe: c09Observe,
	final:   c09FinalBln,
}

func init() {
	c09Bln.gen = func(t *rapid.T) *hcCase {
		c := genBalloonsCase(t, genOpts{Policy: polBalloons, MinOps: 10, MaxOps: 40, Reconfig: true, FillPools: true, FailingReqs: true, MemPressure: true})
		c.Drain = rapid.SliceOfN(rapid.IntRange(0, 7), 1, 6).Draw(t, "drain")
		return c
	}
}

func TestVerifC09Balloons(t *testing.T)       { c09Bln.run(t) }
func TestVerifC09BalloonsReplay(t *testing.T) { c09Bln.replay(t) }

// ---------------------------------------------------------------- C12 (balloons part)
func c12SetupBln(e *executor) {
	installOptOutObserver(e,
		func(c *rtCtr) bool { return e.blnPreserved(c) || !e.blnPinCPU() },
		func(c *rtCtr) bool {
			if e.blnPreserved(c) || e.memPreserved(c) {
				return true
			}
			v := e.blnView()
			if v.snap == nil {
				return false
			}
			pin := e.blnCfg().PinMemory == nil || *e.blnCfg().PinMemory
			if bl := v.byCtr[c.ID]; len(bl) == 1 {
				if d := v.defs[bl[0].Def]; d != nil && d.PinMemory != nil {
					pin = *d.PinMemory
				}
			}
			return !pin
		})
}

func c12ObserveBln(e *executor, r *stepResult, ri *runInfo) {
	opted := false
	for _, c := range e.m.live() {
		if (e.blnPreserved(c) || e.memPreserved(c)) && c.ID != r.Target {
			opted = true
		}
	}
	if !opted {
		return
	}
	ri.label("opted-out-container-present")
	for _, t := range r.Told {
		if t.Target != r.Target && (t.Res.GetCpu().GetCpus() != "" || t.Res.GetCpu().GetMems() != "") {
			ri.nt = true
			ri.label("rebalancing-while-opt-out-present")
		}
	}
}

// c12PressureOps: a memory.preserve container with a memory limit and a
// runtime-given multi-node memory set comes first, then ordinary containers
// whose limits fill single nodes - the situation in which the allocator has
// nothing left to move but the opted-out container's zone.
func c12PressureOps(t *rapid.T, topo *vfkit.Topo) []hcOp {
	nodes := topo.MemNodes().Sorted()
	capa := topo.NodeCapacityBytes(nodes[0])
	for _, n := range nodes {
		if c := topo.NodeCapacityBytes(n); c < capa {
			capa = c
		}
	}
	mems := vfkit.NewIDSet(nodes[rapid.IntRange(0, len(nodes)-1).Draw(t, "pm0")])
	mems.Add(nodes[rapid.IntRange(0, len(nodes)-1).Draw(t, "pm1")])
	form := rapid.SampledFrom([]string{"bare", "pod", "container"}).Draw(t, "ooForm")
	ops := []hcOp{
		{Kind: "pod", Pod: &hcPodSpec{Namespace: "default", QoS: "burstable", Labels: map[string]string{"app": "web"},
			Annotations: map[string]string{annKey("memory.preserve", form, "c0"): "true"}}},
		{Kind: "create", A: 0, Ctr: &hcCtrSpec{Name: "c0", MilliCPU: 500, LimitCPU: 1000, Mems: mems.String(),
			MemLimit: capa / 100 * int64(rapid.SampledFrom([]int{40, 60, 90}).Draw(t, "pFrac"))}},
	}
	n := rapid.IntRange(3, 9).Draw(t, "nOrdinary")
	for i := 0; i < n; i++ {
		ops = append(ops, hcOp{Kind: "pod", Pod: &hcPodSpec{Namespace: rapid.SampledFrom([]string{"default", "prod", "dev"}).Draw(t, "ns"),
			QoS: "guaranteed", Labels: map[string]string{"app": rapid.SampledFrom([]string{"web", "db", "batch"}).Draw(t, "app")}, Annotations: map[string]string{}}})
		mc := int64(rapid.SampledFrom([]int{500, 1000, 1500, 2000}).Draw(t, "mcpu"))
		ops = append(ops, hcOp{Kind: "create", A: i + 1, Ctr: &hcCtrSpec{Name: "c0", MilliCPU: mc, LimitCPU: mc,
			MemLimit: capa / 100 * int64(rapid.SampledFrom([]int{30, 50, 70, 85}).Draw(t, "oFrac"))}})
		if rapid.IntRange(0, 3).Draw(t, "stopOne") == 0 {
			ops = append(ops, hcOp{Kind: "stop", A: rapid.IntRange(1, 9).Draw(t, "stopWhich")})
		}
	}
	return ops
}

var c12Bln = &propTest{
	prop: "C12", unit: "balloons-optouts",
	gen: func(t *rapid.T) *hcCase {
		o := genOpts{Policy: polBalloons, MinOps: 10, MaxOps: 40, Reconfig: true, OptOuts: true, MemPressure: true,
			Topo: vfkit.TopoOpts{MaxCPUs: 32, SmallMem: true, MaxMemNodes: 8}}
		c := genBalloonsCase(t, o)
		if len(c.Topo.MemNodes().Sorted()) >= 3 && rapid.IntRange(0, 2).Draw(t, "pressureScenario") == 0 {
			c.Ops = append(c12PressureOps(t, c.Topo), c.Ops[len(c.Ops)/2:]...)
			// every ordinary container gets a balloon of its own, spread over the machine:
			// their memory zones are then different single nodes
			b := c.Config.Balloons
			b.PinMemory, b.AllocatorTopologyBalancing = ptr(true), true
			b.BalloonDefs = []*blncfg.BalloonDef{{Name: "spread", Namespaces: []string{"*"}, PreferNewBalloons: true, MaxCpus: 2, PreferSpreadingPods: true}}
		}
		return c
	},
	observe: c12ObserveBln,
	setup:   c12SetupBln,
}

func TestVerifC12Balloons(t *testing.T)       { c12Bln.run(t) }
func TestVerifC12BalloonsReplay(t *testing.T) { c12Bln.replay(t) }

//go:build verif

package resmgr

import "os"

func removeAll(dir string) error { return os.RemoveAll(dir) }

//go:build verif && verifwb

package resmgr

import (
	"fmt"
	topologyaware "github.com/containers/nri-plugins/cmd/plugins/topology-aware/policy"
	"sort"
	"strings"

	balloons "github.com/containers/nri-plugins/cmd/plugins/balloons/policy"
	polcfg "github.com/containers/nri-plugins/pkg/apis/config/v1alpha1/resmgr/policy"
	blncfg "github.com/containers/nri-plugins/pkg/apis/config/v1alpha1/resmgr/policy/balloons"
	cpuctl "github.com/containers/nri-plugins/pkg/resmgr/control/cpu"
	libmem "github.com/containers/nri-plugins/pkg/resmgr/lib/memory"
	policyapi "github.com/containers/nri-plugins/pkg/resmgr/policy"
	"github.com/containers/nri-plugins/pkg/zzverif/vfkit"
)

func (e *executor) blnCfg() *blncfg.Config { return e.cfg.Balloons }

func (e *executor) blnPinCPU() bool {
	return e.blnCfg().PinCPU == nil || *e.blnCfg().PinCPU
}

func (e *executor) blnAvailable() vfkit.IDSet {
	if a, ok := e.blnCfg().AvailableResources[polcfg.CPU]; ok && strings.HasPrefix(string(a), "cpuset:") {
		s, _ := vfkit.ParseIDSet(strings.TrimPrefix(string(a), "cpuset:"))
		return s.Intersect(e.h.topo.OnlineCPUs())
	}
	return e.h.topo.OnlineCPUs()
}

// blnPreserved: cpu.preserve annotation or a matching preserve rule (the
// generator only emits the rule name In [sidecar]).
func (e *executor) blnPreserved(c *rtCtr) bool {
	if e.cpuPreserved(c) {
		return true
	}
	if p := e.blnCfg().Preserve; p != nil {
		for _, ex := range p.MatchExpressions {
			if ex.Key == "name" {
				for _, v := range ex.Values {
					if v == c.Spec.Name {
						return true
					}
				}
			}
		}
	}
	return false
}

type blnView struct {
	snap    *balloons.VerifSnapshot
	zones   []*policyapi.TopologyZone
	byCtr   map[string][]*balloons.VerifBalloon
	defs    map[string]*balloons.VerifBalloonDef
	alloc   *libmem.Allocator
	classes map[string][]int
}

func (e *executor) blnView() *blnView {
	v := &blnView{byCtr: map[string][]*balloons.VerifBalloon{}, defs: map[string]*balloons.VerifBalloonDef{}}
	v.snap = balloons.VerifSnap(e.h.backend)
	if v.snap == nil {
		return v
	}
	for i := range v.snap.Balloons {
		b := &v.snap.Balloons[i]
		for _, ctrs := range b.Pods {
			for _, id := range ctrs {
				v.byCtr[id] = append(v.byCtr[id], b)
			}
		}
	}
	for i := range v.snap.Defs {
		v.defs[v.snap.Defs[i].Name] = &v.snap.Defs[i]
	}
	v.zones = e.h.m.policy.GetTopologyZones()
	v.alloc = balloons.VerifAllocator(e.h.backend)
	v.classes = cpuctl.VerifAssignments(e.h.m.cache)
	return v
}

// scopeCPUs returns the CPUs in the same topology domain (level) as any CPU
// of the given set, from the hardware model.
func scopeCPUs(topo *vfkit.Topo, level string, of vfkit.IDSet) vfkit.IDSet {
	out := vfkit.IDSet{}
	for _, c := range topo.CPUs {
		if !c.Online {
			continue
		}
		for id := range of {
			o := topo.CPUs[id]
			same := false
			switch level {
			case "system":
				same = true
			case "package":
				same = o.Pkg == c.Pkg
			case "die":
				same = o.Pkg == c.Pkg && o.Die == c.Die
			case "numa":
				same = o.Node == c.Node
			case "l2cache":
				same = o.L2 == c.L2
			case "core":
				same = o.Pkg == c.Pkg && o.Core == c.Core
			case "thread":
				same = o.ID == c.ID
			}
			if same {
				out.Add(c.ID)
				break
			}
		}
	}
	return out
}

// oneThreadPerCore: s picks exactly one CPU of every physical core present in p.
func oneThreadPerCore(topo *vfkit.Topo, s, p vfkit.IDSet) bool {
	if !s.SubsetOf(p) {
		return false
	}
	type core struct{ pkg, core int }
	inP, inS := map[core]int{}, map[core]int{}
	for id := range p {
		inP[core{topo.CPUs[id].Pkg, topo.CPUs[id].Core}]++
	}
	for id := range s {
		inS[core{topo.CPUs[id].Pkg, topo.CPUs[id].Core}]++
	}
	for k := range inP {
		if inS[k] != 1 {
			return false
		}
	}
	return true
}

// checkBalloons is the C02 oracle.
func checkBalloons(e *executor, r *stepResult) *vfkit.Violation {
	const P = "C02"
	v := e.blnView()
	if v.snap == nil {
		return nil
	}
	topo := e.h.topo
	avail := e.blnAvailable()
	isolated := topo.IsolatedCPUs()
	// remember in which kind of request a live container lost its balloon
	if e.scratch["lostBln"] == nil {
		e.scratch["lostBln"] = map[string]string{}
		e.scratch["hadBln"] = map[string]bool{}
	}
	lost, had := e.scratch["lostBln"].(map[string]string), e.scratch["hadBln"].(map[string]bool)
	for _, c := range e.m.live() {
		if len(v.byCtr[c.ID]) > 0 {
			had[c.ID] = true
			delete(lost, c.ID)
		} else if had[c.ID] {
			had[c.ID] = false
			lost[c.ID] = r.lostBy(c.ID)
			if lost[c.ID] == "updateConfig" && r.CfgError != nil {
				lost[c.ID] = "updateConfig-rejected"
			}
		}
	}
	// balloons as advertised (zones) must agree with the white-box view
	zoneCpus := map[string]string{}
	zoneShared := map[string]string{}
	for _, z := range v.zones {
		if z.Type != "balloon" {
			continue
		}
		for _, a := range z.Attributes {
			switch a.Name {
			case policyapi.CPUsAttribute:
				zoneCpus[z.Name] = a.Value
			case policyapi.SharedCPUsAttribute:
				zoneShared[z.Name] = a.Value
			}
		}
	}
	all := vfkit.IDSet{}
	perDef := map[string]int{}
	for _, b := range v.snap.Balloons {
		cpus := set(b.Cpus)
		if zc, ok := zoneCpus[b.Name]; !ok || !set(zc).Equal(cpus) || !set(zoneShared[b.Name]).Equal(set(b.SharedIdle)) {
			return viol(P, "advertised balloon zones describe the balloons", "zone-mismatch", "after %s: balloon %s cpus %s shared %s, zone cpus %q shared %q", r.Desc, b.Name, b.Cpus, b.SharedIdle, zc, zoneShared[b.Name])
		}
		if x := cpus.Intersect(all); !x.Empty() {
			return viol(P, "balloon CPU sets pairwise disjoint", "balloons-overlap", "after %s: CPUs %s in balloon %s and another balloon", r.Desc, x, b.Name)
		}
		all = all.Union(cpus)
		if !cpus.SubsetOf(avail) {
			return viol(P, "balloon CPUs are available CPUs", "balloon-outside-available", "after %s: balloon %s cpus %s, available %s", r.Desc, b.Name, cpus, avail)
		}
		perDef[b.Def]++
	}
	idle := avail.Minus(all)
	if !set(v.snap.Free).Equal(idle) {
		return viol(P, "idle CPUs are the available CPUs outside all balloons", "free-cpus-ledger", "after %s: policy's free set %s, available minus balloons %s", r.Desc, v.snap.Free, idle)
	}
	for _, b := range v.snap.Balloons {
		d := v.defs[b.Def]
		cpus, shared := set(b.Cpus), set(b.SharedIdle)
		if x := shared.Intersect(all); !x.Empty() {
			return viol(P, "shared idle CPUs are never part of any balloon", "shared-idle-inside-balloon", "after %s: balloon %s shares %s which belong to balloons", r.Desc, b.Name, x)
		}
		if x := shared.Intersect(isolated); !x.Empty() {
			return viol(P, "shared idle CPUs are never kernel-isolated", "shared-idle-isolated", "after %s: balloon %s shares isolated %s", r.Desc, b.Name, x)
		}
		if !shared.SubsetOf(avail) {
			return viol(P, "shared idle CPUs are available CPUs", "shared-idle-outside-available", "after %s: balloon %s shares %s, available %s", r.Desc, b.Name, shared, avail)
		}
		if d != nil && d.ShareIdle != "" && !cpus.Empty() {
			want := scopeCPUs(topo, d.ShareIdle, cpus).Intersect(idle).Minus(isolated)
			if !want.SubsetOf(shared) {
				sig := "idle-cpu-in-scope-not-shared"
				return viol(P, "shared idle CPUs include every idle non-isolated CPU in the sharing scope", sig,
					"after %s: balloon %s (scope %s, cpus %s) shares %s, idle in scope %s (missing %s)", r.Desc, b.Name, d.ShareIdle, cpus, shared, want, want.Minus(shared))
			}
		}
		if d != nil {
			if d.MaxCpus > 0 && cpus.Size() > d.MaxCpus {
				return viol(P, "balloon within its type's maxCPUs", "above-max-cpus", "after %s: balloon %s has %d CPUs, max %d", r.Desc, b.Name, cpus.Size(), d.MaxCpus)
			}
			if cpus.Size() < d.MinCpus {
				return viol(P, "balloon within its type's minCPUs", "below-min-cpus", "after %s: balloon %s has %d CPUs, min %d", r.Desc, b.Name, cpus.Size(), d.MinCpus)
			}
		}
		// members: at least one CPU, and enough for the requests
		n, sum := 0, int64(0)
		for _, ctrs := range b.Pods {
			for _, id := range ctrs {
				n++
				if c, ok := e.m.ctrs[id]; ok {
					sum += reqFromShares(c.CreateMilli)
				}
			}
		}
		if n > 0 {
			if cpus.Empty() {
				return viol(P, "a non-empty balloon has at least one CPU", "non-empty-balloon-without-cpus", "after %s: balloon %s has %d containers and no CPU", r.Desc, b.Name, n)
			}
			if int64(1000*cpus.Size()) < sum {
				return viol(P, "a balloon has at least as many CPUs as its containers request", "balloon-smaller-than-requests",
					"after %s: balloon %s has %d CPUs for %dm requested by %d containers", r.Desc, b.Name, cpus.Size(), sum, n)
			}
		}
	}
	for _, d := range v.snap.Defs {
		n := perDef[d.Name]
		if n < d.MinBalloons {
			return viol(P, "balloon type keeps its minBalloons", "below-min-balloons", "after %s: type %s has %d instances, min %d", r.Desc, d.Name, n, d.MinBalloons)
		}
		if d.MaxBalloons > 0 && n > d.MaxBalloons {
			return viol(P, "balloon type keeps its maxBalloons", "above-max-balloons", "after %s: type %s has %d instances, max %d", r.Desc, d.Name, n, d.MaxBalloons)
		}
	}
	// containers: exactly one balloon, pinned to balloon + shared idle
	for _, c := range e.m.live() {
		if e.blnPreserved(c) {
			if len(v.byCtr[c.ID]) != 0 {
				return viol(P, "preserved containers are not managed", "preserved-container-in-balloon", "after %s: %s in %s", r.Desc, c.ID, v.byCtr[c.ID][0].Name)
			}
			continue
		}
		bl := v.byCtr[c.ID]
		if ann, ok := effAnn(&e.m.pods[c.Pod].Spec, balloonAnnKey, c.Spec.Name); ok && len(bl) == 0 {
			if _, known := v.defs[ann]; !known {
				continue // annotated with an unknown balloon type: refusing it is the documented behaviour
			}
		}
		if len(bl) != 1 {
			names := []string{}
			for _, b := range bl {
				names = append(names, b.Name)
			}
			sig := fmt.Sprintf("container-in-%d-balloons", len(bl))
			// attribute the loss to the request in which this container lost its balloon
			// (a container created in the same concurrent phase as the update was never seen in one)
			if lost[c.ID] == "" && !had[c.ID] && r.Op.Kind == "phase" {
				lost[c.ID] = r.lostBy(c.ID)
				if lost[c.ID] == "updateConfig" && r.CfgError != nil {
					lost[c.ID] = "updateConfig-rejected"
				}
			}
			switch {
			case len(bl) != 0:
			case lost[c.ID] == "updateConfig-rejected":
				sig += ":after-rejected-reconfiguration"
			case lost[c.ID] == "Synchronize" || (r.Handler == "Synchronize" && e.steps <= 1):
				sig = "container-without-balloon-after-synchronize-could-not-readmit-it"
			case lost[c.ID] == "updateConfig":
				sig = "container-without-balloon-after-accepted-reconfiguration"
			}
			return viol(P, "every managed container belongs to exactly one balloon", sig, "after %s: %s (state %s) is in balloons %v", r.Desc, c.ID, c.State, names)
		}
		b := bl[0]
		if !e.blnPinCPU() {
			continue
		}
		pin := set(b.Cpus).Union(set(b.SharedIdle))
		got := set(c.Res.Cpus)
		if len(c.ToldCpus) == 0 {
			return viol(P, "allowed CPUs are the balloon's CPUs plus its shared idle CPUs", "container-never-pinned", "after %s: %s in %s never told a cpuset", r.Desc, c.ID, b.Name)
		}
		hide := false
		if d := v.defs[b.Def]; d != nil {
			hide = d.HideHT
		}
		if hv, ok := effBool(&e.m.pods[c.Pod].Spec, "hide-hyperthreads", c.Spec.Name); ok {
			hide = hv
		}
		okPin := got.Equal(pin)
		if hide {
			okPin = oneThreadPerCore(topo, got, pin)
		}
		if !okPin {
			sig := "cpuset-differs-from-balloon"
			if hide {
				sig = "cpuset-not-one-thread-per-core-of-balloon"
			}
			if r.Err != nil || e.failedPending {
				sig += ":after-failed-request"
			}
			return viol(P, "allowed CPUs are exactly the balloon's CPUs plus shared idle CPUs", sig,
				"after %s: %s in %s (cpus %s shared %s hideHT=%v) has runtime cpuset %q", r.Desc, c.ID, b.Name, b.Cpus, b.SharedIdle, hide, c.Res.Cpus)
		}
	}
	// CPU classes
	classOf := map[int]string{}
	for class, ids := range v.classes {
		for _, id := range ids {
			if prev, dup := classOf[id]; dup {
				return viol(P, "each CPU in at most one class", "cpu-in-two-classes", "after %s: cpu %d in %q and %q", r.Desc, id, prev, class)
			}
			classOf[id] = class
		}
	}
	owner := map[int]string{}
	for _, b := range v.snap.Balloons {
		for id := range set(b.Cpus) {
			if d := v.defs[b.Def]; d != nil {
				owner[id] = d.CpuClass
			}
		}
	}
	for _, id := range avail.Sorted() {
		want, owned := owner[id]
		if !owned {
			want = v.snap.IdleClass
		}
		got, has := classOf[id]
		if !has || got != want {
			sig := "cpu-class-of-balloon-cpu-wrong"
			if !owned {
				sig = "cpu-class-of-idle-cpu-wrong"
			}
			return viol(P, "every available CPU carries the class of its balloon or the idle class", sig,
				"after %s: cpu %d has class %q (assigned=%v), expected %q (in a balloon: %v); classes %v", r.Desc, id, got, has, want, owned, v.classes)
		}
	}
	return nil
}

func checkBalloonsMemory(e *executor, r *stepResult) *vfkit.Violation {
	v := e.blnView()
	if v.snap == nil {
		return nil
	}
	return checkMemory(e, r, &memView{
		alloc: v.alloc,
		applies: func(c *rtCtr) bool {
			if e.blnPreserved(c) || e.memPreserved(c) {
				return false
			}
			bl := v.byCtr[c.ID]
			if len(bl) != 1 {
				return false
			}
			pin := v.snap.PinMem
			if d := v.defs[bl[0].Def]; d != nil && d.PinMemory != nil {
				pin = *d.PinMemory
			}
			return pin
		},
	})
}

func checkBalloonsNoStaleHolders(e *executor, r *stepResult) *vfkit.Violation {
	const P = "C09"
	v := e.blnView()
	if v.snap == nil {
		return nil
	}
	for id, bl := range v.byCtr {
		c, ok := e.m.ctrs[id]
		if !ok || (c.State != stCreated && c.State != stRunning) {
			st := "unknown"
			if ok {
				st = c.State
			}
			sig := "balloon-membership-of-" + st + "-container"
			if r.Op.Kind == "reconfig" || e.reconfigured {
				sig += ":after-reconfigure"
			}
			return viol(P, "a stopped or removed container never holds or regains resources", sig,
				"after %s: container %s (%s) is a member of balloon %s", r.Desc, id, st, bl[0].Name)
		}
	}
	if v.alloc != nil {
		var bad string
		v.alloc.ForeachRequest(nil, func(q *libmem.Request) bool {
			c, ok := e.m.ctrs[q.ID()]
			if !ok || (c.State != stCreated && c.State != stRunning) {
				bad = q.ID()
				return false
			}
			return true
		})
		if bad != "" {
			sig := "memory-held-by-dead-container"
			if e.reconfigured {
				sig += ":after-reconfigure"
			}
			return viol(P, "a stopped or removed container never holds memory", sig, "after %s: allocator still holds a request for %s", r.Desc, bad)
		}
	}
	return nil
}

func (e *executor) blnQuiescent() map[string]string {
	out := map[string]string{}
	v := e.blnView()
	if v.snap == nil {
		return out
	}
	perDef := map[string][]string{}
	for _, b := range v.snap.Balloons {
		n := 0
		for _, c := range b.Pods {
			n += len(c)
		}
		// identities of CPUs and instance numbers are not compared, only the
		// number of instances per type, their sizes and members
		perDef[b.Def] = append(perDef[b.Def], fmt.Sprintf("ncpus=%d members=%d", set(b.Cpus).Size(), n))
	}
	for d, l := range perDef {
		sort.Strings(l)
		out["balloons-of-type:"+d] = fmt.Sprint(l)
	}
	out["free"] = fmt.Sprint(set(v.snap.Free).Size())
	n := 0
	if v.alloc != nil {
		v.alloc.ForeachRequest(nil, func(*libmem.Request) bool { n++; return true })
	}
	out["memory-requests"] = fmt.Sprint(n)
	sub := 0
	for _, z := range v.zones {
		if z.Type == policyapi.ContainerAllocationZoneType {
			sub++
		}
	}
	out["container-subzones"] = fmt.Sprint(sub)
	idleOther := []string{}
	owner := map[int]bool{}
	for _, b := range v.snap.Balloons {
		for id := range set(b.Cpus) {
			owner[id] = true
		}
	}
	avail := e.blnAvailable()
	for class, ids := range v.classes {
		for _, id := range ids {
			if !owner[id] && avail.Has(id) && class != v.snap.IdleClass {
				idleOther = append(idleOther, fmt.Sprintf("%d:%s", id, class))
			}
		}
	}
	sort.Strings(idleOther)
	out["idle-cpus-not-in-idle-class"] = fmt.Sprint(idleOther)
	return out
}

func traceBalloons(e *executor) {
	v := e.blnView()
	if v.snap == nil {
		return
	}
	fmt.Printf("TRACE    free=%s classes=%v\n", v.snap.Free, v.classes)
	for _, b := range v.snap.Balloons {
		fmt.Printf("TRACE    balloon %s cpus=%s shared=%s pods=%v\n", b.Name, b.Cpus, b.SharedIdle, b.Pods)
	}
}

// the memory zone the policy's allocator has assigned to every live container
// is part of "all assignments" (C13): a rejected or identical configuration
// update must leave it alone
func init() {
	wbObservables = func(e *executor, out map[string]string) {
		alloc := balloons.VerifAllocator(e.h.backend)
		if alloc == nil {
			alloc = topologyaware.VerifAllocator(e.h.backend)
		}
		if alloc == nil {
			return
		}
		for _, c := range e.m.live() {
			if z, ok := alloc.AssignedZone(c.ID); ok {
				out["libmem:"+c.ID] = z.MemsetString()
			} else {
				out["libmem:"+c.ID] = "<none>"
			}
		}
	}
}

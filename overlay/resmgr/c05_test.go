//go:build verif

package resmgr

import (
	"testing"

	"pgregory.net/rapid"
)

func c05Observe(e *executor, r *stepResult, ri *runInfo) {
	// non-trivial: a reply or push carrying updates for >= 2 other containers
	others := map[string]bool{}
	for _, t := range r.Told {
		if t.Kind != "adjust" && t.Target != r.Target {
			others[t.Target] = true
		}
	}
	if len(others) >= 2 {
		ri.nt = true
		ri.label("reply-updates-2+-others")
	}
	if len(r.Pushes) > 0 {
		ri.label("push-after-reconfigure")
	}
	if r.Op.Kind == "recreate" {
		ri.label("stale-name-recreate")
	}
}

var c05TA = &propTest{
	prop: "C05", unit: "ta-histories",
	gen: func(t *rapid.T) *hcCase {
		c := genTACase(t, genOpts{Policy: polTA, MinOps: 8, MaxOps: 40, Reconfig: true, FillPools: true})
		if rapid.IntRange(0, 2).Draw(t, "failureOnLeftoversMotif") == 0 {
			failureOnLeftoversMotif(t, c)
		}
		return c
	},
	invs:    []invFn{checkRuntimeView},
	observe: c05Observe,
}

func TestVerifC05TA(t *testing.T)     { c05TA.run(t) }
func TestVerifC05Replay(t *testing.T) { c05TA.replay(t) }

// failureOnLeftoversMotif inserts, somewhere in the second half of a history,
// a request that leaves undeliverable changes behind (the removal of a
// container that was never stopped) directly followed by a request that
// fails (an update nobody can satisfy): whatever the first one queued must
// survive the second one's error path.
func failureOnLeftoversMotif(t *rapid.T, c *hcCase) {
	if len(c.Ops) < 4 {
		return
	}
	at := rapid.IntRange(len(c.Ops)/2, len(c.Ops)).Draw(t, "motifAt")
	motif := []hcOp{
		{Kind: "removelive", A: rapid.IntRange(0, 7).Draw(t, "motifVictim")},
		{Kind: "update", A: rapid.IntRange(0, 7).Draw(t, "motifTarget"), Ctr: &hcCtrSpec{Name: "x", MilliCPU: 640000, LimitCPU: 640000}},
	}
	ops := append([]hcOp{}, c.Ops[:at]...)
	ops = append(ops, motif...)
	c.Ops = append(ops, c.Ops[at:]...)
}

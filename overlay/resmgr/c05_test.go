//go:build verif

package resmgr

import (
	"testing"

	"pgregory.net/rapid"
)

func c05Observe(e *executor, r *stepResult, ri *runInfo) {
	// non-trivial: a reply or push carrying updates for >= 2 other containers
	others := map[string]bool{}
	for _, t := range r.Told {
		if t.Kind != "adjust" && t.Target != r.Target {
			others[t.Target] = true
		}
	}
	if len(others) >= 2 {
		ri.nt = true
		ri.label("reply-updates-2+-others")
	}
	if len(r.Pushes) > 0 {
		ri.label("push-after-reconfigure")
	}
	if r.Op.Kind == "recreate" {
		ri.label("stale-name-recreate")
	}
}

var c05TA = &propTest{
	prop: "C05", unit: "ta-histories",
	gen: func(t *rapid.T) *hcCase {
		return genTACase(t, genOpts{Policy: polTA, MinOps: 8, MaxOps: 40, Reconfig: true, FillPools: true})
	},
	invs:    []invFn{checkRuntimeView},
	observe: c05Observe,
}

func TestVerifC05TA(t *testing.T)     { c05TA.run(t) }
func TestVerifC05Replay(t *testing.T) { c05TA.replay(t) }

//go:build verif && verifwb

package resmgr

import (
	"fmt"
	"testing"

	"pgregory.net/rapid"

	"github.com/containers/nri-plugins/pkg/zzverif/vfkit"
)

type c16Case struct {
	Topo   *vfkit.Topo `json:"topo"`
	Config *vhConfig   `json:"config"`
}

func poolHWCpus(topo *vfkit.Topo, name string) (vfkit.IDSet, bool) {
	var a, b int
	switch {
	case name == "root":
		return topo.OnlineCPUs(), true
	case scan(name, "socket #%d", &a):
		return topo.PkgCPUs(a), true
	case scan(name, "die #%d/%d", &a, &b):
		return topo.DieCPUs(a, b), true
	case scan(name, "NUMA node #%d", &a):
		return topo.NodeCPUs(a), true
	}
	return nil, false
}

func scan(s, format string, args ...any) bool {
	n, err := fmt.Sscanf(s, format, args...)
	return err == nil && n == len(args)
}

func c16CheckPools(c *c16Case) (v *vfkit.Violation, rejected bool) {
	const P = "C16"
	dir := vhNewStateDir()
	h, err := vhStart(polTA, c.Topo, dir, c.Config)
	if err != nil {
		vhRemove(dir)
		return nil, true
	}
	defer h.close()
	e := &executor{h: h, m: newRtModel(), cfg: c.Config, scratch: map[string]any{}}
	view := e.taView()
	if view.snap == nil {
		return nil, true
	}
	topo := c.Topo
	avail := e.taAvailable().Intersect(topo.OnlineCPUs())
	pools := view.snap.Pools
	byName := view.pools
	// single root; virtual root iff several sockets
	roots := []string{}
	for _, p := range pools {
		if p.Parent == "" {
			roots = append(roots, p.Name)
		}
	}
	if len(roots) != 1 {
		return viol(P, "pools form a single tree", "not-a-single-root", "roots %v", roots), false
	}
	root := byName[roots[0]]
	multi := len(topo.Packages()) > 1
	if (root.Kind == "virtual node") != multi {
		return viol(P, "virtual root only with several sockets", "virtual-root-rule", "root %s kind %q, sockets %v", root.Name, root.Kind, topo.Packages()), false
	}
	children := map[string][]string{}
	for _, p := range pools {
		if p.Parent != "" {
			if _, ok := byName[p.Parent]; !ok {
				return viol(P, "pools form a tree", "dangling-parent", "pool %s parent %q", p.Name, p.Parent), false
			}
			children[p.Parent] = append(children[p.Parent], p.Name)
		}
	}
	// expected levels
	for _, pkg := range topo.Packages() {
		sname := fmt.Sprintf("socket #%d", pkg)
		sp, ok := byName[sname]
		if !ok {
			return viol(P, "every socket has a pool", "socket-pool-missing", "%s", sname), false
		}
		wantParent := ""
		if multi {
			wantParent = "root"
		}
		if sp.Parent != wantParent {
			return viol(P, "sockets sit below the root", "socket-parent", "%s parent %q want %q", sname, sp.Parent, wantParent), false
		}
		dies := topo.Dies(pkg)
		nodeParents := map[string][]int{}
		if len(dies) > 1 {
			for _, d := range dies {
				dname := fmt.Sprintf("die #%d/%d", pkg, d)
				dp, ok := byName[dname]
				if !ok || dp.Parent != sname {
					return viol(P, "die level exists when the socket has several dies", "die-pool-missing", "%s (found=%v)", dname, ok), false
				}
				nodeParents[dname] = topo.DieNodes(pkg, d)
			}
		} else {
			for _, d := range dies {
				if _, ok := byName[fmt.Sprintf("die #%d/%d", pkg, d)]; ok {
					return viol(P, "redundant die level omitted", "redundant-die-pool", "socket %d has one die but a die pool", pkg), false
				}
			}
			nodeParents[sname] = topo.PkgNodes(pkg)
		}
		for parent, nodes := range nodeParents {
			for _, n := range nodes {
				nname := fmt.Sprintf("NUMA node #%d", n)
				np, ok := byName[nname]
				want := len(nodes) > 1 && topo.Nodes[n].MemKB > 0
				if ok != want {
					return viol(P, "NUMA level exists iff the parent has several nodes (memory-less nodes omitted)", "numa-pool-rule",
						"%s under %s: exists=%v, parent has nodes %v, node memory %d kB", nname, parent, ok, nodes, topo.Nodes[n].MemKB), false
				}
				if ok && np.Parent != parent {
					return viol(P, "NUMA pools sit below their die/socket", "numa-parent", "%s parent %q want %q", nname, np.Parent, parent), false
				}
			}
		}
	}
	// CPU sets
	cpusOf := func(name string) vfkit.IDSet {
		p := byName[name]
		return set(p.TotalIsolated).Union(set(p.TotalReserved)).Union(set(p.TotalSharable))
	}
	reserved, isolated := set(view.snap.Reserved), topo.IsolatedCPUs()
	for _, p := range pools {
		iso, res, shr := set(p.TotalIsolated), set(p.TotalReserved), set(p.TotalSharable)
		if !iso.Disjoint(res) || !iso.Disjoint(shr) || !res.Disjoint(shr) {
			return viol(P, "isolated, reserved and sharable sets are pairwise disjoint", "supply-sets-overlap", "pool %s iso %s res %s shr %s", p.Name, iso, res, shr), false
		}
		hw, ok := poolHWCpus(topo, p.Name)
		if !ok {
			return viol(P, "pool names follow the hardware", "unknown-pool-name", "%s", p.Name), false
		}
		if want := hw.Intersect(avail); !cpusOf(p.Name).Equal(want) {
			return viol(P, "a pool's CPUs are its hardware CPUs within the available set", "pool-cpus", "pool %s has %s, hardware∩available %s", p.Name, cpusOf(p.Name), want), false
		}
		if !iso.Equal(cpusOf(p.Name).Intersect(isolated)) || !res.Equal(cpusOf(p.Name).Intersect(reserved).Minus(iso)) {
			return viol(P, "isolated/reserved split follows kernel isolation and the reservation", "supply-split", "pool %s iso %s res %s; kernel isolated %s reserved %s", p.Name, iso, res, isolated, reserved), false
		}
		kids := children[p.Name]
		union := vfkit.IDSet{}
		for i, a := range kids {
			for _, b := range kids[i+1:] {
				if !cpusOf(a).Disjoint(cpusOf(b)) {
					return viol(P, "sibling pools have disjoint CPU sets", "siblings-overlap", "%s and %s", a, b), false
				}
			}
			union = union.Union(cpusOf(a))
		}
		if !union.SubsetOf(cpusOf(p.Name)) {
			return viol(P, "a pool's CPUs contain those of its children", "child-cpus-outside-parent", "pool %s %s children %s", p.Name, cpusOf(p.Name), union), false
		}
	}
	if !cpusOf(root.Name).Equal(avail) {
		return viol(P, "the root holds every available CPU", "root-cpus", "root %s, available %s", cpusOf(root.Name), avail), false
	}
	// memory sets
	memOf := func(name string) vfkit.IDSet {
		p := byName[name]
		return vfkit.NewIDSet(p.Mem...).Union(vfkit.NewIDSet(p.PMem...)).Union(vfkit.NewIDSet(p.HBM...))
	}
	if !topo.MemNodes().SubsetOf(memOf(root.Name)) {
		return viol(P, "every memory node that has memory belongs to the root", "root-memset", "root %s, nodes with memory %s", memOf(root.Name), topo.MemNodes()), false
	}
	cpuNodes := topo.CPUNodes()
	for _, p := range pools {
		if p.Parent != "" && !memOf(p.Name).SubsetOf(memOf(p.Parent)) {
			sig := "child-memset-outside-parent"
			extra := memOf(p.Name).Minus(memOf(p.Parent))
			onlyMemless := true
			for n := range extra {
				if topo.Nodes[n].MemKB > 0 {
					onlyMemless = false
				}
			}
			if onlyMemless {
				sig = "memoryless-cpu-node-in-child-memset-but-not-in-root"
			}
			return viol(P, "a child's memory nodes are a subset of its parent's", sig, "pool %s %s, parent %s %s", p.Name, memOf(p.Name), p.Parent, memOf(p.Parent)), false
		}
		if p.Parent == "" {
			continue
		}
		hw, _ := poolHWCpus(topo, p.Name)
		local := vfkit.IDSet{}
		for n := range cpuNodes {
			if !topo.NodeCPUs(n).Intersect(hw).Empty() {
				local.Add(n)
			}
		}
		for _, n := range topo.Nodes {
			if cpuNodes.Has(n.ID) || n.MemKB == 0 {
				continue
			}
			want := !topo.ClosestCPUNodes(n.ID).Intersect(local).Empty()
			if got := memOf(p.Name).Has(n.ID); got != want {
				return viol(P, "a CPU-less PMEM/HBM node is attached to exactly the pools containing one of its closest CPU-bearing nodes", "special-node-attachment",
					"pool %s (local nodes %s): node %d attached=%v, closest CPU nodes %s", p.Name, local, n.ID, got, topo.ClosestCPUNodes(n.ID)), false
			}
		}
	}
	return nil, false
}

func TestVerifC16Pools(t *testing.T) {
	defer vfkit.Flush()
	st := vfkit.For("C16")
	unit := "pool-tree"
	rapid.Check(t, func(t *rapid.T) {
		topo := vfkit.GenTopo(t, vfkit.TopoOpts{})
		c := &c16Case{Topo: topo, Config: &vhConfig{TA: genTAConfig(t, topo, genOpts{})}}
		v, rejected := c16CheckPools(c)
		n := 0
		labels := []string{}
		for _, f := range topo.Features() {
			labels = append(labels, "hw:"+f)
			switch f {
			case "multi-die", "snc", "cpuless-node", "memoryless-cpu-node", "offline-cpus", "isolated-cpus", "hybrid":
				n++
			}
		}
		if rejected {
			labels = append(labels, "config-rejected")
		}
		st.Case(unit, n >= 2 && !rejected, vfkit.Hash(c), labels...)
		if n >= 2 && !rejected && st.WantSample() {
			st.Sample(map[string]any{"machine": topo.Summary(), "config": c.Config})
		}
		if v != nil {
			st.Report(t, unit, v, c)
		}
	})
}

func TestVerifC16PoolsReplay(t *testing.T) {
	c := &c16Case{}
	rf, ok, err := vfkit.LoadReplay(c)
	if !ok || rf.Unit != "pool-tree" {
		t.Skip("no replay file for this unit")
	}
	if err != nil {
		t.Fatalf("replay: %v", err)
	}
	if v, _ := c16CheckPools(c); v != nil {
		vfkit.For("C16").Report(t, "pool-tree", v, c)
	}
}

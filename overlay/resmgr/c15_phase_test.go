//go:build verif

package resmgr

import (
	"fmt"
	"runtime"
	"sort"
	"strings"
	"sync"
	"time"

	"github.com/containerd/nri/pkg/api"
	"pgregory.net/rapid"

	"github.com/containers/nri-plugins/pkg/zzverif/vfkit"
)

// C15: concurrent delivery. A "phase" operation delivers several requests
// from separate goroutines at once: lifecycle lanes (each owns a new pod and
// walks it through a generated prefix of its life), update lanes (each owns a
// distinct pre-existing container), a configuration update and, in phases
// without lifecycle lanes, a Synchronize. The binary is built with the race
// detector; its reports are read back after every phase.

const c15 = "C15"

type hcLane struct {
	Kind   string      `json:"kind"` // lifecycle | update | reconfig | reconfig-same | sync
	Pod    *hcPodSpec  `json:"pod,omitempty"`
	Ctrs   []hcCtrSpec `json:"ctrs,omitempty"`
	Steps  int         `json:"steps,omitempty"`
	Upd    *hcCtrSpec  `json:"upd,omitempty"`
	A      int         `json:"a,omitempty"`
	Cfg    *vhConfig   `json:"cfg,omitempty"`
	Yields []int       `json:"yields,omitempty"` // scheduler yields before each action
}

// a phase that has not finished by then is examined for blocked handlers
var phaseWatchdog = 180 * time.Second

type hcPhase struct {
	Lanes []hcLane `json:"lanes"`
}

type phaseReply struct {
	lane    int
	handler string
	target  string
	created string
	adjust  *api.ContainerAdjustment
	updates []*api.ContainerUpdate
	err     error
}

type phaseResult struct {
	violation *vfkit.Violation
	requests  int
	failed    int
	lanes     int
	kinds     map[string]bool
}

func updateResources(qos string, spec *hcCtrSpec) (*api.LinuxResources, rtRes) {
	nr := kubeletResources(qos, spec)
	res := &api.LinuxResources{Cpu: &api.LinuxCPU{}, Memory: &api.LinuxMemory{}}
	if nr.Shares != 0 {
		res.Cpu.Shares = api.UInt64(nr.Shares)
	}
	if nr.Quota != 0 {
		res.Cpu.Quota = api.Int64(nr.Quota)
		res.Cpu.Period = api.UInt64(nr.Period)
	}
	if nr.Limit != 0 {
		res.Memory.Limit = api.Int64(nr.Limit)
	}
	return res, nr
}

// execPhase runs one concurrent phase and re-synchronises the runtime model
// with the outcome.
func (e *executor) execPhase(op hcOp, r *stepResult) {
	m, p := e.m, e.h.m.nri
	r.Handler = "concurrent-phase"
	pr := &phaseResult{kinds: map[string]bool{}}
	e.scratch["phase"] = pr
	var mu sync.Mutex
	var replies []phaseReply
	record := func(q phaseReply) {
		mu.Lock()
		replies = append(replies, q)
		mu.Unlock()
	}
	yield := func(ln *hcLane, k int) {
		if k < len(ln.Yields) {
			for i := 0; i < ln.Yields[k]; i++ {
				runtime.Gosched()
			}
		}
	}
	pre := map[string]string{} // told cpuset/mems before the phase
	for _, c := range m.live() {
		pre[c.ID] = c.Res.Cpus + "|" + c.Res.Mems
	}
	hasLifecycle, hasSync := false, false
	for _, ln := range op.Phase.Lanes {
		if ln.Kind == "lifecycle" {
			hasLifecycle = true
		}
		if ln.Kind == "sync" {
			hasSync = true
		}
	}
	hasSync = hasSync && !hasLifecycle
	updCands := m.live()
	var lanes []func()
	var cfgLane *hcLane
	var cfgErr error
	cfgDone := false
	synced := false
	for li := range op.Phase.Lanes {
		li, ln := li, &op.Phase.Lanes[li]
		switch ln.Kind {
		case "lifecycle":
			id, seq := e.newID("p")
			pod := &rtPod{ID: id, Seq: seq, Spec: *ln.Pod, State: "new"}
			m.pods[id] = pod
			ctrs := []*rtCtr{}
			for i := range ln.Ctrs {
				spec := ln.Ctrs[i]
				spec.Name = fmt.Sprintf("%s-%d", spec.Name, i)
				if pod.Spec.QoS == "guaranteed" && spec.MilliCPU == 0 {
					spec.MilliCPU = 100
				}
				cid, cseq := e.newID("c")
				c := &rtCtr{ID: cid, Pod: id, Seq: cseq, Spec: spec, State: "new", Res: kubeletResources(pod.Spec.QoS, &spec),
					InitMems: spec.Mems, ReqMilli: spec.MilliCPU, LimMilli: spec.LimitCPU, AllocCfg: e.cfg}
				if pod.Spec.QoS == "besteffort" {
					c.ReqMilli = 0
				}
				c.CreateMilli = c.ReqMilli
				m.ctrs[cid] = c
				pre[cid] = c.Res.Cpus + "|" + c.Res.Mems
				ctrs = append(ctrs, c)
			}
			pr.kinds["lifecycle"] = true
			lanes = append(lanes, func() { e.runLifecycleLane(li, ln, pod, ctrs, record, yield) })
		case "update":
			if len(updCands) == 0 || ln.Upd == nil || hasSync {
				// (the lists handed to a concurrent Synchronize are a snapshot taken before the
				// phase: with a resource update in the same phase they would not be the
				// runtime's state at any serialization point)
				continue
			}
			idx := ln.A % len(updCands)
			c := updCands[idx]
			updCands = append(append([]*rtCtr{}, updCands[:idx]...), updCands[idx+1:]...)
			pr.kinds["update"] = true
			lanes = append(lanes, func() {
				yield(ln, 0)
				pod := m.pods[c.Pod]
				spec := c.Spec
				spec.MilliCPU, spec.LimitCPU, spec.MemLimit = ln.Upd.MilliCPU, ln.Upd.LimitCPU, ln.Upd.MemLimit
				if pod.Spec.QoS == "guaranteed" && spec.MilliCPU == 0 {
					spec.MilliCPU = 100
				}
				res, _ := updateResources(pod.Spec.QoS, &spec)
				ups, err := p.UpdateContainer(bg, m.nriPod(pod), m.nriCtr(c), res)
				if err == nil {
					c.Spec = spec
					c.ReqMilli, c.LimMilli = spec.MilliCPU, spec.LimitCPU
					if pod.Spec.QoS == "besteffort" {
						c.ReqMilli = 0
					}
				} else {
					fr := spec.MilliCPU
					if pod.Spec.QoS == "besteffort" {
						fr = 0
					}
					c.FailedReqs = append(c.FailedReqs, fr)
				}
				record(phaseReply{lane: li, handler: "UpdateContainer", target: c.ID, updates: ups, err: err})
			})
		case "reconfig", "reconfig-same":
			if cfgLane != nil {
				continue
			}
			cfgLane = ln
			cfg := ln.Cfg
			if ln.Kind == "reconfig-same" || cfg == nil {
				cfg = e.cfg
			}
			pr.kinds["reconfig"] = true
			lanes = append(lanes, func() {
				yield(ln, 0)
				cfgErr = e.h.reconfigure(cfg)
				cfgDone = true
			})
		case "sync":
			if hasLifecycle || synced {
				continue // the runtime's lists would not be a consistent snapshot
			}
			synced = true
			pods, ctrs := e.runtimeLists()
			pr.kinds["sync"] = true
			lanes = append(lanes, func() {
				yield(ln, 0)
				ups, err := p.Synchronize(bg, pods, ctrs)
				record(phaseReply{lane: li, handler: "Synchronize", updates: ups, err: err})
			})
		}
	}
	pr.lanes = len(lanes)
	// ---- run
	var wg sync.WaitGroup
	start := make(chan struct{})
	panics := make(chan string, len(lanes)+1)
	for _, f := range lanes {
		f := f
		wg.Add(1)
		go func() {
			defer wg.Done()
			defer func() {
				if x := recover(); x != nil {
					buf := make([]byte, 16384)
					panics <- fmt.Sprintf("%v\n%s", x, buf[:runtime.Stack(buf, false)])
				}
			}()
			<-start
			f()
		}()
	}
	close(start)
	done := make(chan struct{})
	go func() { wg.Wait(); close(done) }()
	select {
	case <-done:
	case <-time.After(phaseWatchdog):
		buf := make([]byte, 1<<20)
		dump := string(buf[:runtime.Stack(buf, true)])
		if strings.Contains(dump, "sync.(*Mutex).Lock") || strings.Contains(dump, "sync.(*RWMutex).Lock") || strings.Contains(dump, "chan receive") {
			pr.violation = viol(c15, "no request deadlocks", "deadlock", "a concurrent phase of %d lanes did not complete within %v; goroutines:\n%s", len(lanes), phaseWatchdog, dump)
			e.scratch["wedged"] = true
			// re-executions while shrinking need not wait that long again
			phaseWatchdog = 20 * time.Second
			return
		}
		panic("INCONCLUSIVE: concurrent phase timed out without a blocked handler")
	}
	select {
	case s := <-panics:
		pr.violation = viol("C14", "no handler panics", "panic:concurrent-phase", "%s", s)
		return
	default:
	}
	// ---- account
	if cfgLane != nil && cfgDone {
		r.CfgError = cfgErr
		if cfgErr == nil {
			if cfgLane.Kind == "reconfig" && cfgLane.Cfg != nil {
				e.cfg = cfgLane.Cfg
				e.reconfigured = true
			}
		} else {
			e.rejectedReconfigs++
			pr.failed++
		}
	}
	r.Pushes = e.h.stub.takePushes()
	told := map[string]map[string]bool{}
	note := func(id string, res *api.LinuxResources, kind string) {
		if res == nil {
			return
		}
		if told[id] == nil {
			told[id] = map[string]bool{}
		}
		told[id]["cpus:"+vfkit.MustParseIDSet(res.GetCpu().GetCpus()).String()] = true
		told[id]["mems:"+vfkit.MustParseIDSet(res.GetCpu().GetMems()).String()] = true
		r.Told = append(r.Told, toldUpdate{Target: id, Res: res, Kind: kind})
	}
	sort.SliceStable(replies, func(i, j int) bool { return replies[i].lane < replies[j].lane })
	r.LostBy = map[string]string{}
	if synced {
		r.LostBy["*"] = "Synchronize"
	} else if cfgLane != nil && cfgDone {
		r.LostBy["*"] = "updateConfig"
	}
	for _, q := range replies {
		pr.requests++
		if q.err != nil {
			pr.failed++
			if q.handler == "UpdateContainer" {
				r.LostBy[q.target] = "UpdateContainer"
			}
		}
		if q.adjust != nil && q.created != "" {
			note(q.created, q.adjust.GetLinux().GetResources(), "adjust")
		}
		for _, u := range q.updates {
			note(u.GetContainerId(), u.GetLinux().GetResources(), "update")
		}
	}
	for _, push := range r.Pushes {
		for _, u := range push {
			note(u.GetContainerId(), u.GetLinux().GetResources(), "push")
		}
	}
	if synced {
		for _, c := range m.ctrsIn(stCreateFailed) {
			c.State = stRemoved
		}
	}
	if pr.failed > 0 {
		e.failedPending = true
		e.taintPending()
	} else {
		e.delivered()
		e.eventPending = false
	}
	// ---- the cache holds exactly what the runtime has
	cch := e.h.m.cache
	for _, pod := range m.pods {
		_, ok := cch.LookupPod(pod.ID)
		switch pod.State {
		case "running", "stopped":
			if !ok {
				pr.violation = viol(c15, "the combined effect equals that of some sequential order", "pod-lost-in-concurrent-phase", "pod %s (%s) is not in the cache after %s", pod.ID, pod.State, r.Desc)
				return
			}
		case stRemoved:
			if ok {
				pr.violation = viol(c15, "the combined effect equals that of some sequential order", "removed-pod-still-cached", "pod %s is still cached after %s", pod.ID, r.Desc)
				return
			}
		}
	}
	for _, c := range m.ctrs {
		cc, ok := cch.LookupContainer(c.ID)
		switch c.State {
		case stCreated, stRunning, stStopped:
			if !ok {
				pr.violation = viol(c15, "the combined effect equals that of some sequential order", "container-lost-in-concurrent-phase", "container %s (%s) is not in the cache", c.ID, c.State)
				return
			}
		case stRemoved:
			if ok {
				pr.violation = viol(c15, "the combined effect equals that of some sequential order", "removed-container-still-cached", "container %s is still cached", c.ID)
				return
			}
		}
		if !ok || (c.State != stCreated && c.State != stRunning) {
			continue
		}
		// ---- what the cache believes was delivered in some reply of this phase
		cpus, mems := cc.GetCpusetCpus(), cc.GetCpusetMems()
		if pr.failed == 0 {
			before := strings.SplitN(pre[c.ID], "|", 2)
			for i, val := range []string{cpus, mems} {
				kind := []string{"cpus", "mems"}[i]
				if val == "" || sameSet(val, before[i]) || told[c.ID][kind+":"+vfkit.MustParseIDSet(val).String()] {
					continue
				}
				pr.violation = viol(c15, "the combined effect equals that of some sequential order: every decision recorded in the cache was delivered in some reply",
					"cached-"+kind+"-never-delivered-in-concurrent-phase", "container %s: cache has %s %q, before the phase %q, delivered in the phase %v", c.ID, kind, val, before[i], keysOf(told[c.ID]))
				return
			}
		}
		// ---- re-synchronise the runtime model: the last delivered decision wins
		if cpus != "" {
			c.Res.Cpus = cpus
			c.ToldCpus = append(c.ToldCpus, cpus)
		}
		if mems != "" {
			c.Res.Mems = mems
			c.ToldMems = append(c.ToldMems, mems)
		}
		if c.Dirty == nil {
			c.Dirty = map[string]bool{}
		}
		for _, f := range []string{"shares", "quota", "period", "limit", "swap"} {
			c.Dirty[f] = true
		}
		if e.reconfigured && cfgLane != nil && cfgDone && cfgErr == nil {
			c.LaterCfgs = append(c.LaterCfgs, e.cfg)
		}
	}
}

func keysOf(m map[string]bool) []string {
	out := []string{}
	for k := range m {
		out = append(out, k)
	}
	sort.Strings(out)
	return out
}

func (e *executor) runLifecycleLane(li int, ln *hcLane, pod *rtPod, ctrs []*rtCtr, record func(phaseReply), yield func(*hcLane, int)) {
	m, p := e.m, e.h.m.nri
	type action func() bool // false: stop the script
	stopCtr := func(c *rtCtr) {
		if c.State != stCreated && c.State != stRunning {
			return
		}
		c.State = stStopped
		ups, err := p.StopContainer(bg, m.nriPod(pod), m.nriCtr(c))
		record(phaseReply{lane: li, handler: "StopContainer", target: c.ID, updates: ups, err: err})
	}
	removeCtr := func(c *rtCtr) {
		if c.State != stStopped {
			return
		}
		c.State = stRemoved
		err := p.RemoveContainer(bg, m.nriPod(pod), m.nriCtr(c))
		record(phaseReply{lane: li, handler: "RemoveContainer", target: c.ID, err: err})
	}
	create := func(c *rtCtr) action {
		return func() bool {
			c.State = stCreated
			nc := m.nriCtr(c)
			nc.State = api.ContainerState_CONTAINER_UNKNOWN
			adj, ups, err := p.CreateContainer(bg, m.nriPod(pod), nc)
			record(phaseReply{lane: li, handler: "CreateContainer", target: c.ID, created: c.ID, adjust: adj, updates: ups, err: err})
			if err != nil {
				// the runtime undoes the failed creation
				c.State = stStopped
				ups, serr := p.StopContainer(bg, m.nriPod(pod), m.nriCtr(c))
				record(phaseReply{lane: li, handler: "StopContainer", target: c.ID, updates: ups, err: serr})
				c.State = stRemoved
				_ = p.RemoveContainer(bg, m.nriPod(pod), m.nriCtr(c))
			}
			return true
		}
	}
	start := func(c *rtCtr) action {
		return func() bool {
			if c.State == stCreated {
				c.State = stRunning
				err := p.StartContainer(bg, m.nriPod(pod), m.nriCtr(c))
				record(phaseReply{lane: li, handler: "StartContainer", target: c.ID, err: err})
			}
			return true
		}
	}
	script := []action{func() bool {
		pod.State = "running"
		err := p.RunPodSandbox(bg, m.nriPod(pod))
		record(phaseReply{lane: li, handler: "RunPodSandbox", target: pod.ID, err: err})
		return err == nil
	}}
	for _, c := range ctrs {
		script = append(script, create(c), start(c))
	}
	if ln.Upd != nil && len(ctrs) > 0 {
		c := ctrs[0]
		script = append(script, func() bool {
			if c.State != stCreated && c.State != stRunning {
				return true
			}
			spec := c.Spec
			spec.MilliCPU, spec.LimitCPU, spec.MemLimit = ln.Upd.MilliCPU, ln.Upd.LimitCPU, ln.Upd.MemLimit
			if pod.Spec.QoS == "guaranteed" && spec.MilliCPU == 0 {
				spec.MilliCPU = 100
			}
			res, _ := updateResources(pod.Spec.QoS, &spec)
			ups, err := p.UpdateContainer(bg, m.nriPod(pod), m.nriCtr(c), res)
			if err == nil {
				c.Spec = spec
				c.ReqMilli, c.LimMilli = spec.MilliCPU, spec.LimitCPU
				if pod.Spec.QoS == "besteffort" {
					c.ReqMilli = 0
				}
			} else {
				c.FailedReqs = append(c.FailedReqs, spec.MilliCPU)
			}
			record(phaseReply{lane: li, handler: "UpdateContainer", target: c.ID, updates: ups, err: err})
			return true
		})
	}
	for _, c := range ctrs {
		c := c
		script = append(script, func() bool { stopCtr(c); return true }, func() bool { removeCtr(c); return true })
	}
	script = append(script, func() bool {
		for _, c := range ctrs {
			stopCtr(c)
		}
		pod.State = "stopped"
		err := p.StopPodSandbox(bg, m.nriPod(pod))
		record(phaseReply{lane: li, handler: "StopPodSandbox", target: pod.ID, err: err})
		return true
	}, func() bool {
		for _, c := range ctrs {
			removeCtr(c)
		}
		pod.State = stRemoved
		err := p.RemovePodSandbox(bg, m.nriPod(pod))
		record(phaseReply{lane: li, handler: "RemovePodSandbox", target: pod.ID, err: err})
		return true
	})
	for k, a := range script {
		if k >= ln.Steps {
			break
		}
		yield(ln, k)
		if !a() {
			break
		}
	}
	// entities the lane never got to do not exist
	if pod.State == "new" {
		pod.State = stRemoved
	}
	for _, c := range ctrs {
		if c.State == "new" {
			c.State = stRemoved
		}
	}
}

// ---------------------------------------------------------------- race reports

func checkPhase(e *executor, r *stepResult) *vfkit.Violation {
	if r.Op.Kind == "phase" {
		if pr, ok := e.scratch["phase"].(*phaseResult); ok && pr.violation != nil {
			return pr.violation
		}
	}
	for _, rep := range vfkit.NewRaceReports() {
		sig, harness := vfkit.RaceSignature(rep)
		if harness {
			panic("harness bug: data race inside the harness:\n" + rep)
		}
		v := viol(c15, "no two handlers access the cache or the policy without mutual exclusion", sig, "after %s the race detector reported:\n%s", r.Desc, rep)
		if vfkit.IsKnown(v) {
			vfkit.For(c15).KnownHit(v)
			continue
		}
		return v
	}
	return nil
}

func (e *executor) hadPhase() bool { return e.scratch["phase"] != nil }

// ---------------------------------------------------------------- generation

func genPhase(t *rapid.T, o genOpts, topo *vfkit.Topo, anns []annGen, genCfg func(*rapid.T) *vhConfig) *hcPhase {
	o.Anns = anns
	ph := &hcPhase{}
	yields := func(n int) []int {
		out := make([]int, n)
		for i := range out {
			out[i] = rapid.SampledFrom([]int{0, 0, 1, 3, 10}).Draw(t, "yield")
		}
		return out
	}
	syncPhase := rapid.IntRange(0, 4).Draw(t, "syncPhase") == 0
	if syncPhase {
		ph.Lanes = append(ph.Lanes, hcLane{Kind: "sync", Yields: yields(1)})
	} else {
		n := rapid.IntRange(2, 5).Draw(t, "nlanes")
		for i := 0; i < n; i++ {
			names := []string{"c0", "c1"}
			pod := genPod(t, o, names)
			ln := hcLane{Kind: "lifecycle", Pod: pod}
			nc := rapid.IntRange(1, 2).Draw(t, "nctrs")
			for j := 0; j < nc; j++ {
				ln.Ctrs = append(ln.Ctrs, *genCtr(t, o, topo, pod.QoS, names[j]))
			}
			if rapid.Bool().Draw(t, "laneUpdate") {
				ln.Upd = genCtr(t, o, topo, pod.QoS, "c0")
			}
			total := 1 + 2*nc + 2*nc + 2
			if ln.Upd != nil {
				total++
			}
			ln.Steps = rapid.IntRange(1, total).Draw(t, "steps")
			ln.Yields = yields(total)
			ph.Lanes = append(ph.Lanes, ln)
		}
	}
	for i, n := 0, rapid.IntRange(0, 2).Draw(t, "nupdates"); i < n && !syncPhase; i++ {
		qos := rapid.SampledFrom([]string{"guaranteed", "burstable"}).Draw(t, "updQos")
		ph.Lanes = append(ph.Lanes, hcLane{Kind: "update", A: rapid.IntRange(0, 50).Draw(t, "updTarget"), Upd: genCtr(t, o, topo, qos, "c0"), Yields: yields(1)})
	}
	cfgLane := rapid.IntRange(0, 3).Draw(t, "cfgLane")
	if syncPhase {
		cfgLane %= 2 // a Synchronize always races with a configuration update
	}
	switch cfgLane {
	case 0:
		ph.Lanes = append(ph.Lanes, hcLane{Kind: "reconfig", Cfg: genCfg(t), Yields: yields(1)})
	case 1:
		ph.Lanes = append(ph.Lanes, hcLane{Kind: "reconfig-same", Yields: yields(1)})
	}
	return ph
}

func withPhases(t *rapid.T, c *hcCase, o genOpts, anns []annGen, genCfg func(*rapid.T) *vhConfig) *hcCase {
	n := rapid.IntRange(1, 3).Draw(t, "nphases")
	for i := 0; i < n; i++ {
		pos := rapid.IntRange(0, len(c.Ops)).Draw(t, "phasePos")
		ops := append([]hcOp{}, c.Ops[:pos]...)
		ops = append(ops, hcOp{Kind: "phase", Phase: genPhase(t, o, c.Topo, anns, genCfg)})
		c.Ops = append(ops, c.Ops[pos:]...)
	}
	return c
}

func c15Observe(e *executor, r *stepResult, ri *runInfo) {
	if r.Op.Kind != "phase" {
		return
	}
	pr, _ := e.scratch["phase"].(*phaseResult)
	if pr == nil {
		return
	}
	for k := range pr.kinds {
		ri.label("phase-with-" + k)
	}
	if pr.failed > 0 {
		ri.label("phase-with-failed-request")
	}
	if pr.lanes >= 3 && pr.requests >= 6 {
		ri.nt = true
	}
}

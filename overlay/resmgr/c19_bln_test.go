//go:build verif && verifwb

package resmgr

import (
	"path"
	"strings"
	"testing"

	"pgregory.net/rapid"

	blncfg "github.com/containers/nri-plugins/pkg/apis/config/v1alpha1/resmgr/policy/balloons"
	resmgrapi "github.com/containers/nri-plugins/pkg/apis/resmgr/v1alpha1"
	"github.com/containers/nri-plugins/pkg/zzverif/vfkit"
)

// C19, second half: balloon-type selection. A container that sits in a
// balloon sits in a balloon of the type the documented rules select for it
// under the configuration in effect.

var c19ExprKeys = []string{"name", "namespace", "pod/namespace", "pod/labels/app", "pod/labels/tier", "qosclass", "pod/qosclass",
	"labels/io.kubernetes.container.name", ":pod/namespace:name", ":,-pod/labels/app,name", "pod/name"}

func c19GenExpr(t *rapid.T) resmgrapi.Expression {
	key := rapid.SampledFrom(c19ExprKeys).Draw(t, "exprKey")
	op := rapid.SampledFrom([]resmgrapi.Operator{resmgrapi.Equals, resmgrapi.NotEqual, resmgrapi.In, resmgrapi.In, resmgrapi.NotIn, resmgrapi.Exists,
		resmgrapi.NotExist, resmgrapi.Matches, resmgrapi.MatchesNot, resmgrapi.MatchesAny, resmgrapi.MatchesNone}).Draw(t, "exprOp")
	var pool []string
	switch key {
	case "name", "labels/io.kubernetes.container.name":
		pool = []string{"c0", "c1", "c2", "sidecar", "c*", "c[01]"}
	case "namespace", "pod/namespace":
		pool = []string{"default", "prod", "dev", "kube-system", "monitoring", "d*", "reserved-?"}
	case "pod/labels/app", "pod/labels/tier":
		pool = []string{"web", "db", "batch", "?b", "front"}
	case "qosclass", "pod/qosclass":
		pool = []string{"Guaranteed", "Burstable", "BestEffort", "B*"}
	case ":pod/namespace:name":
		pool = []string{"default:c0", "prod:c1", "dev:sidecar", "d*:c?", "*:c0"}
	case ":,-pod/labels/app,name":
		pool = []string{"web-c0", "db-c1", "batch-c2", "*-c0", "web-*"}
	default:
		pool = []string{"pod-p1", "pod-p2", "pod-p?"}
	}
	e := resmgrapi.Expression{Key: key, Op: op}
	n := 0
	switch op {
	case resmgrapi.Equals, resmgrapi.NotEqual, resmgrapi.Matches, resmgrapi.MatchesNot:
		n = 1
	case resmgrapi.Exists, resmgrapi.NotExist:
		n = 0
	default:
		n = rapid.IntRange(1, 3).Draw(t, "nvalues")
	}
	for i := 0; i < n; i++ {
		e.Values = append(e.Values, rapid.SampledFrom(pool).Draw(t, "exprValue"))
	}
	return e
}

// c19Retype replaces the matching rules of the generated balloon types by
// richer ones and optionally places explicit reserved/default types.
func c19Retype(t *rapid.T, cfg *blncfg.Config) {
	for _, d := range cfg.BalloonDefs {
		d.MaxBalloons, d.MaxCpus = 0, 0 // selection, not capacity, decides where containers go
		d.MatchExpressions, d.Namespaces = nil, nil
		for i, n := 0, rapid.SampledFrom([]int{0, 1, 1, 2}).Draw(t, "nexpr"); i < n; i++ {
			d.MatchExpressions = append(d.MatchExpressions, c19GenExpr(t))
		}
		for i, n := 0, rapid.SampledFrom([]int{0, 0, 1, 2}).Draw(t, "nns"); i < n; i++ {
			d.Namespaces = append(d.Namespaces, rapid.SampledFrom([]string{"prod", "dev", "default", "*", "d*", "kube-*", "monitoring", "reserved-a"}).Draw(t, "nsGlob"))
		}
	}
	insert := func(d *blncfg.BalloonDef) {
		at := rapid.IntRange(0, len(cfg.BalloonDefs)).Draw(t, "builtinAt")
		defs := append([]*blncfg.BalloonDef{}, cfg.BalloonDefs[:at]...)
		defs = append(defs, d)
		cfg.BalloonDefs = append(defs, cfg.BalloonDefs[at:]...)
	}
	if rapid.IntRange(0, 3).Draw(t, "explicitReserved") == 0 {
		d := &blncfg.BalloonDef{Name: "reserved"}
		if rapid.Bool().Draw(t, "reservedExpr") {
			d.MatchExpressions = []resmgrapi.Expression{c19GenExpr(t)}
		}
		insert(d)
	}
	if rapid.IntRange(0, 3).Draw(t, "explicitDefault") == 0 {
		d := &blncfg.BalloonDef{Name: "default", MinBalloons: 1, MaxBalloons: 1}
		switch rapid.IntRange(0, 2).Draw(t, "defaultRule") {
		case 0:
			d.MatchExpressions = []resmgrapi.Expression{c19GenExpr(t)}
		case 1:
			d.Namespaces = []string{rapid.SampledFrom([]string{"prod", "d*", "*"}).Draw(t, "defaultNs")}
		}
		insert(d)
	}
}

func genBalloonTypesCase(t *rapid.T, o genOpts) *hcCase {
	to := o.Topo
	to.AlwaysL2 = true
	topo := vfkit.GenTopo(t, to)
	mk := func(t *rapid.T) *vhConfig {
		c := genBalloonsConfig(t, topo, o)
		c19Retype(t, c)
		return &vhConfig{Balloons: c}
	}
	cfg := mk(t)
	c := &hcCase{Policy: polBalloons, Topo: topo, Config: cfg}
	c.Ops = genOpsWith(t, o, topo, blnAnnotations, func(t *rapid.T) *vhConfig {
		switch rapid.IntRange(0, 4).Draw(t, "sameCfg") {
		case 0:
			return cfg.clone()
		case 1:
			// other types, rejected only once the policy has started to build them: type
			// selection must keep following the configuration in effect
			return blnLateRejected(mk(t), topo)
		}
		return mk(t)
	})
	// more varied pod labels
	for i := range c.Ops {
		if p := c.Ops[i].Pod; p != nil && rapid.IntRange(0, 2).Draw(t, "tierLabel") == 0 {
			p.Labels["tier"] = rapid.SampledFrom([]string{"front", "db", "web"}).Draw(t, "tier")
		}
	}
	return c
}

var c19QoS = map[string]string{"guaranteed": "Guaranteed", "burstable": "Burstable", "besteffort": "BestEffort"}

// reference key resolver over the runtime model
func c19Resolve(pod *rtPod, c *rtCtr) func(string) (string, bool) {
	return func(key string) (string, bool) {
		switch path.Clean(key) {
		case "name":
			return c.Spec.Name, true
		case "namespace", "pod/namespace":
			return pod.Spec.Namespace, true
		case "qosclass", "pod/qosclass":
			return c19QoS[pod.Spec.QoS], true
		case "pod/name":
			return "pod-" + pod.ID, true
		case "labels/io.kubernetes.container.name":
			return c.Spec.Name, true
		}
		if l, ok := strings.CutPrefix(key, "pod/labels/"); ok {
			v, ok := pod.Spec.Labels[l]
			return v, ok
		}
		return "", false
	}
}

// c19Select is the reference selector: annotation, then the first type in
// list order (implicit reserved first, implicit default last) with a matching
// expression or namespace pattern, then default.
func c19Select(cfg *blncfg.Config, pod *rtPod, c *rtCtr) (def string, how string, ok bool) {
	type rdef struct {
		name  string
		exprs []resmgrapi.Expression
		ns    []string
	}
	defs, haveReserved, haveDefault := []rdef{}, false, false
	for _, d := range cfg.BalloonDefs {
		defs = append(defs, rdef{d.Name, d.MatchExpressions, append([]string{}, d.Namespaces...)})
		haveReserved = haveReserved || d.Name == "reserved"
		haveDefault = haveDefault || d.Name == "default"
	}
	if !haveReserved {
		defs = append([]rdef{{name: "reserved"}}, defs...)
	}
	if !haveDefault {
		defs = append(defs, rdef{name: "default"})
	}
	for i := range defs {
		if defs[i].name == "reserved" {
			defs[i].ns = append(append(defs[i].ns, "kube-system"), cfg.ReservedPoolNamespaces...)
		}
	}
	if name, ok := effAnn(&pod.Spec, balloonAnnKey, c.Spec.Name); ok {
		for _, d := range defs {
			if d.name == name {
				return name, "annotation", true
			}
		}
		return "", "annotation", false
	}
	resolve := c19Resolve(pod, c)
	for _, d := range defs {
		for _, ex := range d.exprs {
			v, ok := vfkit.RefKeyValue(ex.Key, resolve)
			res, judged := vfkit.RefOperator(string(ex.Op), ex.Values, v, ok)
			if !judged {
				panic("generated expression outside the documented table")
			}
			if res {
				return d.name, "expression", true
			}
		}
		for _, pat := range d.ns {
			if m, err := path.Match(pat, pod.Spec.Namespace); err == nil && m {
				return d.name, "namespace", true
			}
		}
	}
	return "default", "fallback", true
}

func checkBalloonType(e *executor, r *stepResult) *vfkit.Violation {
	const P = "C19"
	v := e.blnView()
	if v.snap == nil || e.inRejectedReconfig {
		return nil
	}
	cfg := e.blnCfg()
	sel := map[string]bool{}
	if s, ok := e.scratch["selected"].(map[string]bool); ok {
		sel = s
	}
	e.scratch["selected"] = sel
	for _, c := range e.m.live() {
		bl := v.byCtr[c.ID]
		if len(bl) != 1 {
			continue
		}
		pod := e.m.pods[c.Pod]
		want, how, ok := c19Select(cfg, pod, c)
		if !ok {
			return viol(P, "an unknown balloon type named by the annotation is an error", "container-with-unknown-annotated-type-in-balloon",
				"after %s: container %s (%s) names an unknown type but is in balloon %s", r.Desc, c.ID, c.Spec.Name, bl[0].Name)
		}
		if bl[0].Def != want {
			return viol(P, "annotation, else first matching type in configured order, else default", "balloon-type-differs:by-"+how,
				"after %s: container %s (name %s, ns %s, labels %v, qos %s, annotations %v) is in balloon %s of type %s, documented selection (%s): %s",
				r.Desc, c.ID, c.Spec.Name, pod.Spec.Namespace, pod.Spec.Labels, pod.Spec.QoS, pod.Spec.Annotations, bl[0].Name, bl[0].Def, how, want)
		}
		sel[how+":"+builtinOrUser(want)] = true
	}
	if (r.Op.Kind == "create" || r.Op.Kind == "recreate") && r.Err == nil && !r.Noop {
		if c, ok := e.m.ctrs[r.Target]; ok && !e.blnPreserved(c) {
			if _, _, ok := c19Select(cfg, e.m.pods[c.Pod], c); !ok {
				return viol(P, "an unknown balloon type named by the annotation is an error", "create-accepted-with-unknown-annotated-type",
					"%s succeeded although the container names an unknown balloon type", r.Desc)
			}
		}
	}
	return nil
}

func builtinOrUser(def string) string {
	if def == "reserved" || def == "default" {
		return def
	}
	return "user"
}

func c19Observe(e *executor, r *stepResult, ri *runInfo) {
	sel, _ := e.scratch["selected"].(map[string]bool)
	for k := range sel {
		ri.label("selected-by-" + k)
	}
	if (sel["expression:user"] || sel["namespace:user"]) && len(sel) >= 3 {
		ri.nt = true
	}
	if r.Op.Kind == "reconfig" && r.CfgError == nil {
		ri.label("reconfigured")
	}
}

var c19Types = &propTest{
	prop: "C19", unit: "balloon-types",
	gen: func(t *rapid.T) *hcCase {
		return genBalloonTypesCase(t, genOpts{Policy: polBalloons, MinOps: 8, MaxOps: 30, Reconfig: true, NoUpdates: true,
			Topo: vfkit.TopoOpts{MaxCPUs: 32, MinCPUs: 8}})
	},
	invs:    []invFn{checkBalloonType},
	observe: c19Observe,
}

func TestVerifC19Types(t *testing.T)       { c19Types.run(t) }
func TestVerifC19TypesReplay(t *testing.T) { c19Types.replay(t) }

//go:build verif && verifwb

package resmgr

import (
	"strings"
	"testing"

	"pgregory.net/rapid"

	"github.com/containers/nri-plugins/pkg/zzverif/vfkit"
)

// Native fuzz target (thorough tier): arbitrary annotation values for every
// annotation key the policies interpret, pushed through a complete container
// lifecycle on a real resource manager. Oracle: no handler panics and the
// lifecycle runs to its end (errors are fine).

var c14FuzzConfigs = map[string][]*vhConfig{}

func c14FuzzConfig(policy string, topo *vfkit.Topo, i int) *vhConfig {
	if c14FuzzConfigs[policy] == nil {
		for k := 0; k < 4; k++ {
			k := k
			g := rapid.Custom(func(t *rapid.T) *vhConfig {
				tp := c14Topos(policy)[k]
				if policy == polTA {
					return &vhConfig{TA: genTAConfig(t, tp, genOpts{PinAlways: true})}
				}
				return &vhConfig{Balloons: genBalloonsConfig(t, tp, genOpts{PinAlways: true})}
			})
			c14FuzzConfigs[policy] = append(c14FuzzConfigs[policy], g.Example(k+1))
		}
	}
	_ = topo
	return c14FuzzConfigs[policy][i%4]
}

func FuzzVerifC14Annotations(f *testing.F) {
	for i := range c14Keys {
		for j, v := range c14Values {
			if len(v) > 200 {
				continue
			}
			f.Add(uint8(i+j), uint8(i), uint8(j%3), v, "true")
		}
	}
	for _, a := range c14Affinities {
		f.Add(uint8(0), uint8(200), uint8(0), a, a)
		f.Add(uint8(1), uint8(201), uint8(0), a, "c0: [ c1 ]")
	}
	f.Fuzz(func(t *testing.T, sel, keyIdx, form uint8, val, val2 string) {
		policy := polTA
		if sel%2 == 1 {
			policy = polBalloons
		}
		k := int(sel/2) % 4
		topo := c14Topos(policy)[k]
		ann := map[string]string{}
		switch {
		case keyIdx == 200:
			ann["resource-policy.nri.io/affinity"] = val
			ann["resource-policy.nri.io/anti-affinity"] = val2
		case keyIdx == 201:
			ann["resource-policy.nri.io/anti-affinity"] = val
			ann["resource-policy.nri.io/affinity"] = val2
		default:
			key := c14Keys[int(keyIdx)%len(c14Keys)] + "." + nsKey
			switch form % 3 {
			case 1:
				key += "/pod"
			case 2:
				key += "/container.c0"
			}
			ann[key] = val
			ann[c14Keys[(int(keyIdx)+int(form)/3+1)%len(c14Keys)]+"."+nsKey] = val2
		}
		c := &c14Case{Policy: policy, Topo: topo, Config: c14FuzzConfig(policy, topo, k)}
		add := func(h string, pod, ctr int) {
			c.Calls = append(c.Calls, c14Call{Handler: h, Pod: pod, Ctr: ctr, Milli: 1500, Mem: 1 << 20, QoS: "guaranteed", NS: "default", Name: "c0", Ann: ann})
		}
		add("RunPodSandbox", 0, 0)
		add("CreateContainer", 0, 0)
		c.Calls = append(c.Calls, c14Call{Handler: "CreateContainer", Pod: 0, Ctr: 1, Milli: 500, QoS: "burstable", NS: "default", Name: "c1"})
		add("StartContainer", 0, 0)
		add("UpdateContainer", 0, 0)
		add("Synchronize", 0, 0)
		add("StopContainer", 0, 0)
		add("RemoveContainer", 0, 0)
		add("StopPodSandbox", 0, 0)
		add("RemovePodSandbox", 0, 0)
		v, _, _, _ := c14Run(c)
		if v != nil && !vfkit.IsKnown(v) {
			t.Fatalf("%s: %s\nannotations: %q", v.Error(), strings.SplitN(v.Detail, "\n", 2)[0], ann)
		}
	})
}

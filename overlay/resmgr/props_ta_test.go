//go:build verif && verifwb

package resmgr

import (
	"fmt"
	polcfg "github.com/containers/nri-plugins/pkg/apis/config/v1alpha1/resmgr/policy"
	"sort"
	"testing"

	"pgregory.net/rapid"

	"github.com/containers/nri-plugins/pkg/zzverif/vfkit"
)

// ---------------------------------------------------------------- C01
func c01Observe(e *executor, r *stepResult, ri *runInfo) {
	v := e.taView()
	if v.snap == nil {
		return
	}
	nExcl, nShared, iso, resv := 0, 0, false, false
	for _, g := range v.snap.Grants {
		if !set(g.Exclusive).Empty() {
			nExcl++
			if !set(g.Isolated).Empty() {
				iso = true
			}
		} else if g.CPUType == "normal" {
			nShared++
		}
		if g.CPUType == "reserved" {
			resv = true
		}
	}
	if e.scratch == nil {
		e.scratch = map[string]any{}
	}
	if nExcl >= 2 {
		e.scratch["two-exclusive"] = true
		ri.label("2+-exclusive-holders")
	}
	if e.scratch["two-exclusive"] == true {
		switch r.Op.Kind {
		case "stop", "update", "stoppod", "recreate", "reconfig", "sync":
			ri.nt = true
		}
	}
	if nExcl > 0 && nShared > 0 {
		ri.label("mixed-exclusive+shared")
	}
	if iso {
		ri.label("isolated-used")
	}
	if resv {
		ri.label("reserved-container-present")
	}
	if r.Op.Kind == "reconfig" && nExcl > 0 {
		ri.label("reconfigure-while-exclusive-held")
	}
	if r.Op.Kind == "update" && r.Err != nil {
		ri.label("failed-update")
	}
}

var c01TA = &propTest{
	prop: "C01", unit: "ta-exclusive",
	gen: func(t *rapid.T) *hcCase {
		return genTACase(t, genOpts{Policy: polTA, MinOps: 10, MaxOps: 40, Reconfig: true, ExclHeavy: true,
			Topo: vfkit.TopoOpts{MinCPUs: 6, MaxCPUs: 32}})
	},
	invs:    []invFn{checkTAExclusive},
	observe: c01Observe,
}

func TestVerifC01(t *testing.T)       { c01TA.run(t) }
func TestVerifC01Replay(t *testing.T) { c01TA.replay(t) }

// ---------------------------------------------------------------- C03
func c03Observe(e *executor, r *stepResult, ri *runInfo) {
	v := e.taView()
	if v.snap == nil {
		return
	}
	for _, p := range v.snap.Pools {
		hosts := 0
		for _, g := range v.snap.Grants {
			if g.Pool == p.Name && g.CPUType == "normal" && set(g.Exclusive).Empty() {
				hosts++
			}
		}
		sub := 0
		inSub := map[string]bool{}
		for _, n := range v.subtree(p.Name) {
			inSub[n] = true
		}
		for _, g := range v.snap.Grants {
			if inSub[g.Pool] && g.CPUType == "normal" {
				sub += g.Portion
			}
		}
		if hosts > 0 && 1000*set(p.FreeSharable).Size()-sub < 1000 {
			ri.nt = true
			ri.label("pool-nearly-full")
		}
	}
	for _, g := range v.snap.Grants {
		if set(g.Exclusive).Empty() {
			continue
		}
		kids := v.subtree(g.Pool)[1:]
		if len(kids) == 0 {
			continue
		}
		for _, o := range v.snap.Grants {
			for _, k := range kids {
				if o.Pool == k && o.CPUType == "normal" && set(o.Exclusive).Empty() {
					ri.nt = true
					ri.label("exclusive-at-inner-pool-over-shared-children")
				}
			}
		}
	}
}

var c03TA = &propTest{
	prop: "C03", unit: "ta-capacity",
	gen: func(t *rapid.T) *hcCase {
		o := genOpts{Policy: polTA, MinOps: 12, MaxOps: 45, Reconfig: true, FillPools: true}
		switch rapid.IntRange(0, 4).Draw(t, "flavour") {
		case 0, 1:
			o.UpdateHeavy, o.ExclHeavy = true, true
		case 2:
			// isolated CPUs, containers that want them, requests mixing whole CPUs with a
			// fraction on nearly full pools: the paths that take CPUs and must give them back
			o.Topo.WantIsolated, o.ExclHeavy, o.WantIsolatedCtrs = true, true, true
		}
		return genTACase(t, o)
	},
	invs:    []invFn{checkTACapacity},
	observe: c03Observe,
}

func TestVerifC03(t *testing.T)       { c03TA.run(t) }
func TestVerifC03Replay(t *testing.T) { c03TA.replay(t) }

// ---------------------------------------------------------------- C04 (topology-aware part)
func c04Observe(e *executor, r *stepResult, ri *runInfo) {
	for _, t := range r.Told {
		if t.Target != r.Target && t.Res.GetCpu().GetMems() != "" && (r.Handler == "CreateContainer" || r.Handler == "UpdateContainer" || r.Handler == "ColdStartDone") {
			ri.nt = true
			ri.label("admission-changed-another-containers-zone")
		}
	}
	for _, f := range e.h.topo.Features() {
		if f == "cpuless-node" {
			ri.label("pmem/hbm-present")
		}
	}
	if r.Handler == "ColdStartDone" && r.Err == nil {
		ri.label("cold-start-finished")
	}
}

var c04TA = &propTest{
	prop: "C04", unit: "ta-memory",
	gen: func(t *rapid.T) *hcCase {
		c := genTACase(t, genOpts{Policy: polTA, MinOps: 10, MaxOps: 40, Reconfig: true, MemPressure: true, ColdStart: true, OptOuts: true,
			Topo: vfkit.TopoOpts{MaxCPUs: 32, SmallMem: true, MaxMemNodes: 8}})
		if rapid.IntRange(0, 2).Draw(t, "lateRejection") == 0 && len(c.Ops) > 6 {
			// in the middle of the history: an update that is valid in itself but too small for
			// the containers running by then (rejected after allocations were touched), followed
			// by the rest of the history on whatever the rejection left behind
			on := c.Topo.OnlineCPUs().Minus(c.Topo.IsolatedCPUs()).Sorted()
			if len(on) >= 2 {
				small := c.Config.clone()
				small.TA.AvailableResources = polcfg.Constraints{polcfg.CPU: polcfg.Amount(fmt.Sprintf("cpuset:%d,%d", on[0], on[1]))}
				small.TA.ReservedResources = polcfg.Constraints{polcfg.CPU: polcfg.Amount(fmt.Sprintf("cpuset:%d", on[0]))}
				pos := rapid.IntRange(len(c.Ops)/3, 2*len(c.Ops)/3).Draw(t, "rejectAt")
				ops := append([]hcOp{}, c.Ops[:pos]...)
				ops = append(ops, hcOp{Kind: "reconfig", Cfg: small})
				c.Ops = append(ops, c.Ops[pos:]...)
			}
		}
		return c
	},
	invs:    []invFn{checkTAMemory},
	observe: c04Observe,
}

func TestVerifC04TA(t *testing.T)       { c04TA.run(t) }
func TestVerifC04TAReplay(t *testing.T) { c04TA.replay(t) }

// ---------------------------------------------------------------- C09 (topology-aware part)
func c09Observe(e *executor, r *stepResult, ri *runInfo) {
	if e.scratch == nil {
		e.scratch = map[string]any{}
	}
	if r.Err != nil || r.CfgError != nil {
		e.scratch["failed"] = true
	}
	if (r.Op.Kind == "sync" || r.Op.Kind == "reconfig") && len(e.m.ctrsIn(stStopped)) > 0 {
		e.scratch["resync-with-stopped"] = true
		ri.label("reconfigure/sync-while-stopped-container-cached")
	}
	if e.scratch["failed"] == true && e.scratch["resync-with-stopped"] == true {
		ri.nt = true
	}
}

// drain stops and removes everything, in an order chosen by the case.
func drain(e *executor, order []int) {
	k := 0
	next := func() int {
		if len(order) == 0 {
			return 0
		}
		k++
		return order[(k-1)%len(order)]
	}
	for len(e.m.live()) > 0 {
		e.exec(hcOp{Kind: "stop", A: next()})
	}
	for len(e.m.ctrsIn(stStopped, stCreateFailed)) > 0 {
		e.exec(hcOp{Kind: "remove", A: next()})
	}
	for len(e.m.podsIn("running")) > 0 {
		e.exec(hcOp{Kind: "stoppod", A: next()})
	}
	for len(e.m.podsIn("stopped")) > 0 {
		e.exec(hcOp{Kind: "removepod", A: next()})
	}
}

func diffMaps(a, b map[string]string) []string {
	keys := map[string]bool{}
	for k := range a {
		keys[k] = true
	}
	for k := range b {
		keys[k] = true
	}
	out := []string{}
	for k := range keys {
		if a[k] != b[k] {
			out = append(out, fmt.Sprintf("%s: pristine %q, after drain %q", k, a[k], b[k]))
		}
	}
	sort.Strings(out)
	return out
}

func c09FinalTA(e *executor, ri *runInfo) *vfkit.Violation {
	c := e.scratchCase()
	drain(e, c.Drain)
	after := e.taQuiescent()
	if n := len(e.h.m.cache.GetContainers()); n != 0 {
		return viol("C09", "cache has no containers at quiescence", "containers-left-in-cache", "%d containers cached after the drain", n)
	}
	// pristine = a fresh instance of the final configuration on the same machine
	dir := vhNewStateDir()
	defer vhRemove(dir)
	h2, err := vhStart(e.h.policy, e.h.topo, dir, e.cfg)
	if err != nil {
		return nil
	}
	pristine := (&executor{h: h2, m: newRtModel(), cfg: e.cfg}).taQuiescent()
	if d := diffMaps(pristine, after); len(d) > 0 {
		sig := "state-after-drain-differs-from-pristine"
		return viol("C09", "releasing everything restores the pristine state", sig, "%v", d)
	}
	return nil
}

func (e *executor) scratchCase() *hcCase {
	if c, ok := e.scratch["case"].(*hcCase); ok {
		return c
	}
	return &hcCase{}
}

var c09TA = &propTest{
	prop: "C09", unit: "ta-leaks",
	invs:    []invFn{checkTANoStaleHolders},
	observe: c09Observe,
	final:   c09FinalTA,
}

func init() {
	c09TA.gen = func(t *rapid.T) *hcCase {
		c := genTACase(t, genOpts{Policy: polTA, MinOps: 10, MaxOps: 40, Reconfig: true, FillPools: true, FailingReqs: true, MemPressure: true})
		c.Drain = rapid.SliceOfN(rapid.IntRange(0, 7), 1, 6).Draw(t, "drain")
		return c
	}
}

func TestVerifC09TA(t *testing.T)       { c09TA.run(t) }
func TestVerifC09TAReplay(t *testing.T) { c09TA.replay(t) }

// ---------------------------------------------------------------- C12 (topology-aware part)
func c12SetupTA(e *executor) {
	installOptOutObserver(e,
		func(c *rtCtr) bool { return e.cpuPreserved(c) || !e.taCfg().PinCPU },
		func(c *rtCtr) bool { return e.memPreserved(c) || !e.taCfg().PinMemory })
}

func c12Observe(e *executor, r *stepResult, ri *runInfo) {
	// non-trivial: an opted-out container exists and a later request changes
	// the told cpuset/mems of some other container
	opted := false
	for _, c := range e.m.live() {
		if e.cpuPreserved(c) || e.memPreserved(c) {
			opted = true
			if c.ID == r.Target {
				opted = false // just created by this request
			}
		}
	}
	if !opted {
		return
	}
	ri.label("opted-out-container-present")
	for _, t := range r.Told {
		if t.Target != r.Target && (t.Res.GetCpu().GetCpus() != "" || t.Res.GetCpu().GetMems() != "") {
			ri.nt = true
			ri.label("rebalancing-while-opt-out-present")
		}
	}
}

var c12TA = &propTest{
	prop: "C12", unit: "ta-optouts",
	gen: func(t *rapid.T) *hcCase {
		return genTACase(t, genOpts{Policy: polTA, MinOps: 10, MaxOps: 40, Reconfig: true, OptOuts: true, MemPressure: true, ColdStart: true,
			Topo: vfkit.TopoOpts{MaxCPUs: 32, SmallMem: true, MaxMemNodes: 8}})
	},
	observe: c12Observe,
	setup:   c12SetupTA,
}

func TestVerifC12TA(t *testing.T)       { c12TA.run(t) }
func TestVerifC12TAReplay(t *testing.T) { c12TA.replay(t) }

//go:build verif

package resmgr

import (
	"fmt"
	"runtime/debug"
	"sort"
	"strings"
	"testing"

	"pgregory.net/rapid"

	"github.com/containers/nri-plugins/pkg/kubernetes"
	"github.com/containers/nri-plugins/pkg/zzverif/vfkit"
)

type invFn func(e *executor, r *stepResult) *vfkit.Violation

type runInfo struct {
	labels   map[string]bool
	nt       bool
	rejected bool
	steps    int
	errors   int
}

func (ri *runInfo) label(l string) { ri.labels[l] = true }
func (ri *runInfo) list() []string {
	out := []string{}
	for l := range ri.labels {
		out = append(out, l)
	}
	sort.Strings(out)
	return out
}

// runCase executes a case against a fresh resource manager, evaluating the
// given invariants after every request. observe is called after every step
// for classification.
func runCase(c *hcCase, invs []invFn, observe func(e *executor, r *stepResult, ri *runInfo)) (v *vfkit.Violation, ri *runInfo) {
	ri = &runInfo{labels: map[string]bool{}}
	dir := vhNewStateDir()
	h, err := vhStart(c.Policy, c.Topo, dir, c.Config)
	if err != nil {
		ri.rejected = true
		ri.label("config-rejected-at-start")
		_ = h
		vhRemove(dir)
		return nil, ri
	}
	defer h.close()
	e := &executor{h: h, m: newRtModel(), cfg: c.Config}
	e.m.memCap = kubernetes.GetMemoryCapacity()
	for _, f := range c.Topo.Features() {
		ri.label("hw:" + f)
	}
	for i, op := range c.Ops {
		var r *stepResult
		func() {
			defer func() {
				if p := recover(); p != nil {
					v = viol("C14", "no handler panics", "panic:"+op.Kind, "op %d %s: %v\n%s", i, op.Kind, p, debug.Stack())
				}
			}()
			r = e.exec(op)
		}()
		if v != nil {
			return v, ri
		}
		if r.Noop {
			continue
		}
		ri.steps++
		if r.Err != nil || r.CfgError != nil {
			ri.errors++
			ri.label("failed:" + r.Handler)
		}
		ri.label("op:" + op.Kind)
		r.Desc = fmt.Sprintf("op %d %s", i, r.Desc)
		if observe != nil {
			observe(e, r, ri)
		}
		for _, inv := range invs {
			func() {
				defer func() {
					if p := recover(); p != nil {
						panic(fmt.Errorf("harness bug in invariant: %v\n%s", p, debug.Stack()))
					}
				}()
				v = inv(e, r)
			}()
			if v != nil {
				// findings of the "after a failed request" class heal with the next
				// successful reply: count them and keep exploring this history
				if vfkit.IsKnown(v) && strings.HasSuffix(v.Signature, "after-failed-request") {
					vfkit.For(v.Property).KnownHit(v)
					ri.label("known:" + v.Signature)
					v = nil
					break
				}
				return v, ri
			}
		}
	}
	return nil, ri
}

func vhRemove(dir string) { _ = removeAll(dir) }

// propTest is the common shape of the history properties.
type propTest struct {
	prop    string
	unit    string
	gen     func(t *rapid.T) *hcCase
	invs    []invFn
	observe func(e *executor, r *stepResult, ri *runInfo)
}

func (pt *propTest) checkCase(t vfkit.Fataler, c *hcCase, record bool) {
	st := vfkit.For(pt.prop)
	v, ri := runCase(c, pt.invs, pt.observe)
	if record {
		st.Case(pt.unit, ri.nt, vfkit.Hash(c), ri.list()...)
		if ri.nt && st.WantSample() && len(c.Ops) <= 25 {
			st.Sample(c.summary())
		}
	}
	if v != nil {
		vfkit.For(v.Property).Report(t, pt.unit, v, c)
	}
}

func (pt *propTest) run(t *testing.T) {
	defer vfkit.Flush()
	rapid.Check(t, func(t *rapid.T) {
		pt.checkCase(t, pt.gen(t), true)
	})
}

func (pt *propTest) replay(t *testing.T) {
	c := &hcCase{}
	rf, ok, err := vfkit.LoadReplay(c)
	if !ok {
		t.Skip("no replay file")
	}
	if err != nil {
		t.Fatalf("replay: %v", err)
	}
	if rf.Unit != pt.unit {
		t.Skip("other unit")
	}
	// sequential runs are deterministic up to map order inside the code under
	// test: re-execute a few times, report if any attempt shows the violation
	for i := 0; i < 25; i++ {
		v, _ := runCase(c, pt.invs, pt.observe)
		if v != nil {
			vfkit.For(v.Property).Report(t, pt.unit, v, c)
			return
		}
	}
}

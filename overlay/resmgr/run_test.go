//go:build verif

package resmgr

import (
	"fmt"
	"os"
	"runtime/debug"
	"sort"
	"strings"
	"testing"

	"pgregory.net/rapid"

	"github.com/containers/nri-plugins/pkg/kubernetes"
	"github.com/containers/nri-plugins/pkg/zzverif/vfkit"
)

type invFn func(e *executor, r *stepResult) *vfkit.Violation

type runInfo struct {
	labels   map[string]bool
	nt       bool
	rejected bool
	steps    int
	errors   int
}

func (ri *runInfo) label(l string) { ri.labels[l] = true }
func (ri *runInfo) list() []string {
	out := []string{}
	for l := range ri.labels {
		out = append(out, l)
	}
	sort.Strings(out)
	return out
}

// runCase executes a case against a fresh resource manager, evaluating the
// given invariants after every request. observe is called after every step
// for classification.
func runCase(c *hcCase, invs []invFn, observe func(e *executor, r *stepResult, ri *runInfo)) (v *vfkit.Violation, ri *runInfo) {
	return runCaseX(c, invs, observe, nil, nil)
}

// runCaseX additionally takes a setup hook (called once the executor exists)
// and a final hook (called after the last operation).
func runCaseX(c *hcCase, invs []invFn, observe func(e *executor, r *stepResult, ri *runInfo),
	setup func(e *executor), final func(e *executor, ri *runInfo) *vfkit.Violation) (v *vfkit.Violation, ri *runInfo) {
	ri = &runInfo{labels: map[string]bool{}}
	dir := vhNewStateDir()
	h, err := vhStart(c.Policy, c.Topo, dir, c.Config)
	if err != nil {
		ri.rejected = true
		ri.label("config-rejected-at-start")
		_ = h
		vhRemove(dir)
		return nil, ri
	}
	defer h.close()
	e := &executor{h: h, m: newRtModel(), cfg: c.Config}
	e.m.memCap = kubernetes.GetMemoryCapacity()
	e.scratch = map[string]any{"case": c}
	if setup != nil {
		setup(e)
	}
	for _, f := range c.Topo.Features() {
		ri.label("hw:" + f)
	}
	for i, op := range c.Ops {
		var r *stepResult
		func() {
			defer func() {
				if p := recover(); p != nil {
					v = viol("C14", "no handler panics", "panic:"+op.Kind, "op %d %s: %v\n%s", i, op.Kind, p, debug.Stack())
				}
			}()
			r = e.exec(op)
		}()
		if v != nil {
			return v, ri
		}
		if r.Noop {
			continue
		}
		ri.steps++
		if r.Err != nil || r.CfgError != nil {
			ri.errors++
			ri.label("failed:" + r.Handler)
		}
		ri.label("op:" + op.Kind)
		r.Desc = fmt.Sprintf("op %d %s", i, r.Desc)
		if os.Getenv("VERIF_TRACE") != "" {
			traceStep(e, r)
		}
		if observe != nil {
			observe(e, r, ri)
		}
		for _, inv := range invs {
			func() {
				defer func() {
					if p := recover(); p != nil {
						panic(fmt.Errorf("harness bug in invariant: %v\n%s", p, debug.Stack()))
					}
				}()
				v = inv(e, r)
			}()
			if v != nil {
				// findings of the "after a failed request" class heal with the next
				// successful reply, and the lock held during a configuration push
				// affects no state: count them and keep exploring this history
				if vfkit.IsKnown(v) && strings.HasPrefix(v.Signature, "push-while-holding-pipeline-lock") {
					vfkit.For(v.Property).KnownHit(v)
					ri.label("known:" + v.Signature)
					v = nil
					continue // (the other invariants of this step still apply)
				}
				if vfkit.IsKnown(v) && strings.Contains(v.Signature, "after-failed-request") {
					vfkit.For(v.Property).KnownHit(v)
					ri.label("known:" + v.Signature)
					v = nil
					break
				}
				return v, ri
			}
		}
		if e.pendingViolation != nil {
			return e.pendingViolation, ri
		}
	}
	if final != nil {
		func() {
			defer func() {
				if p := recover(); p != nil {
					v = viol("C14", "no handler panics", "panic:final", "%v\n%s", p, debug.Stack())
				}
			}()
			v = final(e, ri)
		}()
	}
	return v, ri
}

func vhRemove(dir string) { _ = removeAll(dir) }

// propTest is the common shape of the history properties.
type propTest struct {
	prop    string
	unit    string
	gen     func(t *rapid.T) *hcCase
	invs    []invFn
	observe func(e *executor, r *stepResult, ri *runInfo)
	setup   func(e *executor)
	final   func(e *executor, ri *runInfo) *vfkit.Violation
	best    *hcCase
	bestSig string
}

func (pt *propTest) checkCase(t vfkit.Fataler, c *hcCase, record bool) {
	st := vfkit.For(pt.prop)
	v, ri := runCaseX(c, pt.invs, pt.observe, pt.setup, pt.final)
	if record {
		st.Case(pt.unit, ri.nt, vfkit.Hash(c), ri.list()...)
		if ri.nt && st.WantSample() && len(c.Ops) <= 25 {
			st.Sample(c.summary())
		}
	}
	if v != nil {
		if vfkit.IsKnown(v) || (v.Property != pt.prop) {
			vfkit.For(v.Property).Report(t, pt.unit, v, c)
			return
		}
		// keep the smallest failing case seen for this signature; minimise the
		// first one by removing operations (on top of rapid's own shrinking)
		if v.Signature == "deadlock" {
			pt.best, pt.bestSig = c, v.Signature // every re-execution would wait for the watchdog
		} else if pt.best == nil || pt.bestSig != v.Signature {
			pt.best, pt.bestSig = pt.minimize(c, v), v.Signature
		} else if len(c.Ops) < len(pt.best.Ops) {
			pt.best = c
		}
		vfkit.For(v.Property).Report(t, pt.unit, v, pt.best)
	}
}

// minimize removes operations while the same violation persists (bounded effort).
func (pt *propTest) minimize(c *hcCase, v *vfkit.Violation) *hcCase {
	same := func(cand *hcCase) bool {
		for i := 0; i < 2; i++ { // map-order dependent failures get a second chance
			w, _ := runCaseX(cand, pt.invs, nil, pt.setup, pt.final)
			if w != nil && w.Property == v.Property && w.Signature == v.Signature {
				return true
			}
		}
		return false
	}
	cur := *c
	budget := 400
	for chunk := len(cur.Ops) / 2; chunk >= 1; chunk /= 2 {
		for i := len(cur.Ops) - chunk; i >= 0 && budget > 0; i -= chunk {
			if i+chunk > len(cur.Ops) {
				continue
			}
			cand := cur
			cand.Ops = append(append([]hcOp{}, cur.Ops[:i]...), cur.Ops[i+chunk:]...)
			budget--
			if same(&cand) {
				cur = cand
			}
		}
	}
	return &cur
}

func (pt *propTest) run(t *testing.T) {
	defer vfkit.Flush()
	rapid.Check(t, func(t *rapid.T) {
		pt.checkCase(t, pt.gen(t), true)
	})
}

func (pt *propTest) replay(t *testing.T) {
	c := &hcCase{}
	rf, ok, err := vfkit.LoadReplay(c)
	if !ok {
		t.Skip("no replay file")
	}
	if err != nil {
		t.Fatalf("replay: %v", err)
	}
	if rf.Unit != pt.unit {
		t.Skip("other unit")
	}
	// sequential runs are deterministic up to map order inside the code under
	// test: re-execute a few times, report if any attempt shows the violation
	for i := 0; i < 25; i++ {
		v, _ := runCaseX(c, pt.invs, pt.observe, pt.setup, pt.final)
		if v != nil {
			vfkit.For(v.Property).Report(t, pt.unit, v, c)
			return
		}
	}
}

func traceStep(e *executor, r *stepResult) {
	fmt.Printf("TRACE %s err=%v cfgerr=%v\n", r.Desc, r.Err, r.CfgError)
	for _, t := range r.Told {
		fmt.Printf("TRACE    told %s %s cpus=%q mems=%q shares=%v\n", t.Kind, t.Target, t.Res.GetCpu().GetCpus(), t.Res.GetCpu().GetMems(), t.Res.GetCpu().GetShares().GetValue())
	}
	for _, c := range e.m.ctrsIn(stCreated, stRunning, stStopped, stCreateFailed) {
		fmt.Printf("TRACE    rt %s %s pod=%s/%s name=%s req=%d cpus=%q mems=%q\n", c.ID, c.State, e.m.pods[c.Pod].Spec.Namespace, e.m.pods[c.Pod].Spec.QoS, c.Spec.Name, c.ReqMilli, c.Res.Cpus, c.Res.Mems)
	}
	pend := []string{}
	for _, pc := range e.h.m.cache.GetPendingContainers() {
		pend = append(pend, fmt.Sprintf("%s(%v)", pc.GetID(), pc.GetPending()))
	}
	fmt.Printf("TRACE    pending %v\n", pend)
	traceWhiteBox(e)
}

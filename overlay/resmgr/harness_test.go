//go:build verif

package resmgr

import (
	"context"
	"encoding/json"
	"fmt"
	"os"
	"path/filepath"
	"sync"

	"github.com/containerd/nri/pkg/api"
	"google.golang.org/protobuf/proto"

	balloons "github.com/containers/nri-plugins/cmd/plugins/balloons/policy"
	topologyaware "github.com/containers/nri-plugins/cmd/plugins/topology-aware/policy"
	"github.com/containers/nri-plugins/pkg/agent"
	cfgapi "github.com/containers/nri-plugins/pkg/apis/config/v1alpha1"
	blncfg "github.com/containers/nri-plugins/pkg/apis/config/v1alpha1/resmgr/policy/balloons"
	tacfg "github.com/containers/nri-plugins/pkg/apis/config/v1alpha1/resmgr/policy/topologyaware"
	logger "github.com/containers/nri-plugins/pkg/log"
	"github.com/containers/nri-plugins/pkg/resmgr/cache"
	"github.com/containers/nri-plugins/pkg/resmgr/events"
	policyapi "github.com/containers/nri-plugins/pkg/resmgr/policy"
	"github.com/containers/nri-plugins/pkg/sysfs"
	"github.com/containers/nri-plugins/pkg/zzverif/vfkit"
)

func init() {
	logger.SetLevel(logger.LevelError)
	if os.Getenv("VERIF_TRACE") == "2" {
		logger.SetLevel(logger.LevelWarn)
	}
}

const (
	polTA       = "topology-aware"
	polBalloons = "balloons"
)

// vhStub records the unsolicited updates the plugin pushes after a reconfiguration.
type vhStub struct {
	mu     sync.Mutex
	pushes [][]*api.ContainerUpdate
	fail   bool
	// The NRI adaptation of the runtime holds its lock while a request or event
	// is being delivered to a plugin, and takes the same lock to serve a
	// plugin's unsolicited UpdateContainers (containerd/nri pkg/adaptation:
	// Adaptation.{CreateContainer,UpdateContainer,StopContainer,StateChange,updateContainers}).
	// A push from inside a handler therefore blocks until the runtime gives up
	// on the request. inRequest names the sequentially delivered request in
	// progress; pushedInside collects the handlers that pushed nevertheless.
	inRequest    string
	pushedInside []string
	// The same adaptation lock makes a push performed while the plugin's own
	// pipeline lock is held a lock-order inversion: the runtime calls into the
	// plugin (adaptation lock, then pipeline lock) while the plugin calls into
	// the runtime (pipeline lock, then adaptation lock). During a sequentially
	// delivered configuration update nobody but the updater can hold the
	// pipeline lock, so a failed TryLock at push time identifies the pusher.
	inConfigUpdate string
	lockProbe      func() bool // true when the pipeline lock was free
	pushedLocked   []string
}

func (s *vhStub) Run(context.Context) error   { return nil }
func (s *vhStub) Start(context.Context) error { return nil }
func (s *vhStub) Stop()                       {}
func (s *vhStub) Wait()                       {}
func (s *vhStub) UpdateContainers(u []*api.ContainerUpdate) ([]*api.ContainerUpdate, error) {
	s.mu.Lock()
	defer s.mu.Unlock()
	cp := make([]*api.ContainerUpdate, 0, len(u))
	for _, x := range u {
		cp = append(cp, proto.Clone(x).(*api.ContainerUpdate))
	}
	s.pushes = append(s.pushes, cp)
	if s.inRequest != "" {
		s.pushedInside = append(s.pushedInside, s.inRequest)
	}
	if s.inConfigUpdate != "" && s.lockProbe != nil && !s.lockProbe() {
		s.pushedLocked = append(s.pushedLocked, s.inConfigUpdate)
	}
	return nil, nil
}

func (s *vhStub) enterRequest(name string) {
	s.mu.Lock()
	s.inRequest = name
	s.mu.Unlock()
}

func (s *vhStub) enterConfigUpdate(name string) {
	s.mu.Lock()
	s.inConfigUpdate = name
	s.mu.Unlock()
}

func (s *vhStub) takePushedLocked() []string {
	s.mu.Lock()
	defer s.mu.Unlock()
	p := s.pushedLocked
	s.pushedLocked = nil
	return p
}

func (s *vhStub) takePushedInside() []string {
	s.mu.Lock()
	defer s.mu.Unlock()
	p := s.pushedInside
	s.pushedInside = nil
	return p
}

func (s *vhStub) takePushes() [][]*api.ContainerUpdate {
	s.mu.Lock()
	defer s.mu.Unlock()
	p := s.pushes
	s.pushes = nil
	return p
}

// vhHarness is a real resource manager wired to a fixture sysfs, a scratch
// state directory and a recording NRI stub.
type vhHarness struct {
	policy   string
	m        *resmgr
	stub     *vhStub
	backend  policyapi.Backend
	stateDir string
	topo     *vfkit.Topo
}

var vhSetupMu sync.Mutex

// vhConfig is the JSON-serialisable configuration of a case: exactly one of
// TA / Balloons is set.
type vhConfig struct {
	TA       *tacfg.Config  `json:"ta,omitempty"`
	Balloons *blncfg.Config `json:"balloons,omitempty"`
}

func (c *vhConfig) clone() *vhConfig {
	b, _ := json.Marshal(c)
	o := &vhConfig{}
	_ = json.Unmarshal(b, o)
	return o
}

func (c *vhConfig) resmgrConfig() cfgapi.ResmgrConfig {
	c = c.clone() // the policies keep pointers into (and balloons mutates) what they are given
	if c.TA != nil {
		return &cfgapi.TopologyAwarePolicy{Spec: cfgapi.TopologyAwarePolicySpec{Config: *c.TA}}
	}
	return &cfgapi.BalloonsPolicy{Spec: cfgapi.BalloonsPolicySpec{Config: *c.Balloons}}
}

func vhNewStateDir() string {
	base := os.Getenv("VERIF_SCRATCH")
	if base == "" {
		base = os.TempDir()
	}
	d, err := os.MkdirTemp(base, "state-")
	if err != nil {
		panic(err)
	}
	_ = os.Chmod(d, 0o700)
	return d
}

// vhStart builds and starts a resource manager. A non-nil error means the
// policy refused the configuration (or the machine) at start-up.
func vhStart(policy string, topo *vfkit.Topo, stateDir string, cfg *vhConfig) (*vhHarness, error) {
	vhSetupMu.Lock()
	defer vhSetupMu.Unlock()

	root, err := topo.Fixture()
	if err != nil {
		panic(fmt.Errorf("harness: fixture: %v", err))
	}
	opt.HostRoot = root
	opt.StateDir = stateDir
	sysfs.SetSysRoot(root)

	h := &vhHarness{policy: policy, stub: &vhStub{}, stateDir: stateDir, topo: topo}
	var cfgIf agent.ConfigInterface
	switch policy {
	case polTA:
		h.backend = topologyaware.New()
		cfgIf = agent.TopologyAwareConfigInterface()
	case polBalloons:
		h.backend = balloons.New()
		cfgIf = agent.BalloonsConfigInterface()
	default:
		panic("unknown policy " + policy)
	}
	agt, err := agent.New(cfgIf, agent.WithConfigFile("/nonexistent"))
	if err != nil {
		panic(fmt.Errorf("harness: agent: %v", err))
	}
	m := &resmgr{agent: agt}
	if err := m.setupCache(); err != nil {
		return nil, fmt.Errorf("cache: %w", err)
	}
	m.nri = &nriPlugin{resmgr: m, byname: map[string]cache.Container{}, stub: h.stub}
	h.stub.lockProbe = func() bool {
		if m.TryLock() {
			m.Unlock()
			return true
		}
		return false
	}
	if err := m.setupPolicy(h.backend); err != nil {
		return nil, fmt.Errorf("policy: %w", err)
	}
	if err := m.setupEventProcessing(); err != nil {
		return nil, err
	}
	if err := m.setupControllers(); err != nil {
		return nil, err
	}
	rc := cfg.resmgrConfig()
	m.cfg = rc
	if err := m.policy.Start(rc.PolicyConfig()); err != nil {
		return nil, fmt.Errorf("policy start: %w", err)
	}
	if err := m.startControllers(); err != nil {
		return nil, err
	}
	m.running = true
	h.m = m
	return h, nil
}

// reconfigure delivers a configuration update the way the agent does.
func (h *vhHarness) reconfigure(cfg *vhConfig) error {
	_, err := h.m.updateConfig(cfg.resmgrConfig())
	return err
}

// coldStartDone injects the policy event the cold start timer would send.
func (h *vhHarness) coldStartDone(id string) (bool, error) {
	h.m.Lock()
	defer h.m.Unlock()
	return h.m.policy.HandleEvent(&events.Policy{Type: topologyaware.ColdStartDone, Source: polTA, Data: id})
}

func (h *vhHarness) close() {
	if h == nil {
		return
	}
	_ = os.RemoveAll(h.stateDir)
}

func vhStateFile(dir string) string { return filepath.Join(dir, "cache") }

func (c *vhConfig) policyName() string {
	if c != nil && c.TA != nil {
		return "ta"
	}
	return "balloons"
}

//go:build verif

package main

import (
	"context"
	"fmt"
	"io"
	"sort"
	"strings"
	"testing"

	"github.com/containerd/nri/pkg/api"
	"github.com/sirupsen/logrus"
	"pgregory.net/rapid"

	"github.com/containers/nri-plugins/pkg/zzverif/vfkit"
)

func init() {
	log = logrus.StandardLogger()
	log.SetOutput(io.Discard)
}

var sideNames = []string{"c", "cc", "c.c", "c-c", "ac", "ca", "pod", "main", "x/y", ""}

var sideHostile = []string{"", "max", "0", "1000000", "-1", "null", "[1,2]", "{a: b}", "\xff\xfe", strings.Repeat("9", 400), "swap", "noswap", "nosuchclass", " swap"}

type sideCase struct {
	Plugin   string            `json:"plugin"`
	Config   string            `json:"config"` // "" = unconfigured; "!" prefix = raw YAML through Configure
	Ctr      string            `json:"ctr"`
	Ann      map[string]string `json:"ann"`
	Shape    int               `json:"shape"`
	MemLimit int64             `json:"memlimit"`
	Orders   int               `json:"orders"`
}

const mqSuffix = ".memory-qos.nri.io"

func mqGen(t *rapid.T) *sideCase {
	c := &sideCase{Plugin: "memory-qos", Ann: map[string]string{}}
	c.Config = rapid.SampledFrom([]string{"", "std", "std", "std", "nounified", "!classes: 5", "!{{{", "!unifiedannotations: [memory.high]\nclasses:\n- name: swap\n  swaplimitratio: 0.5", "!null", "!classes:\n- null"}).Draw(t, "config")
	c.Ctr = rapid.SampledFrom(sideNames).Draw(t, "ctr")
	c.Shape = rapid.SampledFrom([]int{0, 0, 0, 0, 0, 1, 2, 3, 4, 5, 6, 7}).Draw(t, "shape")
	c.MemLimit = rapid.SampledFrom([]int64{0, 1 << 20, 1 << 30, 1 << 30, -5}).Draw(t, "memlimit")
	keys := []string{"class", "memory.high", "memory.swap.max", "bogus", "memory.low"}
	n := rapid.IntRange(0, 5).Draw(t, "nann")
	for i := 0; i < n; i++ {
		key := rapid.SampledFrom(keys).Draw(t, "key")
		val := rapid.SampledFrom(sideHostile).Draw(t, "val")
		if key == "class" && rapid.IntRange(0, 3).Draw(t, "validClass") != 0 {
			val = rapid.SampledFrom([]string{"swap", "swap", "noswap", "nosuchclass"}).Draw(t, "classVal")
		}
		switch rapid.IntRange(0, 2).Draw(t, "form") {
		case 0:
			c.Ann[key+mqSuffix] = val
		case 1:
			c.Ann[key+mqSuffix+"/"+c.Ctr] = val
		default:
			c.Ann[key+mqSuffix+"/"+rapid.SampledFrom(sideNames).Draw(t, "other")] = val
		}
	}
	if rapid.Bool().Draw(t, "unrelated") {
		c.Ann["unrelated.example.com/x"] = "1"
	}
	return c
}

func mqPlugin(c *sideCase) (*plugin, error) {
	p := &plugin{}
	switch {
	case c.Config == "":
	case c.Config == "std":
		p.config = &pluginConfig{UnifiedAnnotations: []string{"memory.high", "memory.swap.max"},
			Classes: []QoSClass{{Name: "swap", SwapLimitRatio: 0.25}, {Name: "noswap"}}}
	case c.Config == "nounified":
		p.config = &pluginConfig{Classes: []QoSClass{{Name: "swap", SwapLimitRatio: 0.5}, {Name: "noswap"}}}
	default:
		if _, err := p.Configure(context.Background(), strings.TrimPrefix(c.Config, "!"), "runtime", "v1"); err != nil {
			return p, err
		}
	}
	return p, nil
}

func sideCtr(c *sideCase) *api.Container {
	ctr := &api.Container{Id: "id1", PodSandboxId: "pod1", Name: c.Ctr}
	if c.Shape&1 == 0 {
		ctr.Linux = &api.LinuxContainer{}
		if c.Shape&2 == 0 {
			ctr.Linux.Resources = &api.LinuxResources{}
			if c.Shape&4 == 0 {
				ctr.Linux.Resources.Memory = &api.LinuxMemory{}
				if c.MemLimit != 0 {
					ctr.Linux.Resources.Memory.Limit = api.Int64(c.MemLimit)
				}
			}
		}
	}
	return ctr
}

// sideEffective is the documented precedence: container-specific beats pod-wide;
// annotations addressed to other containers have no effect.
func sideEffective(ann map[string]string, suffix, ctr string) map[string]string {
	eff := map[string]string{}
	for k, v := range ann {
		if p, ok := strings.CutSuffix(k, suffix); ok {
			eff[p] = v
		}
	}
	for k, v := range ann {
		if p, ok := strings.CutSuffix(k, suffix+"/"+ctr); ok {
			eff[p] = v
		}
	}
	return eff
}

func sortedMap(m map[string]string) string {
	ks := []string{}
	for k, v := range m {
		ks = append(ks, k+"="+v)
	}
	sort.Strings(ks)
	return strings.Join(ks, ";")
}

func mqCheck(c *sideCase) (v14, v18 *vfkit.Violation, interpreted bool) {
	var first string
	for round := 0; round < 8; round++ {
		var (
			adj *api.ContainerAdjustment
			err error
			pan any
		)
		func() {
			defer func() { pan = recover() }()
			p, cerr := mqPlugin(c)
			if cerr != nil {
				err = cerr
				return
			}
			ann := map[string]string{}
			keys := []string{}
			for k := range c.Ann {
				keys = append(keys, k)
			}
			sort.Strings(keys)
			if round%2 == 1 {
				for i, j := 0, len(keys)-1; i < j; i, j = i+1, j-1 {
					keys[i], keys[j] = keys[j], keys[i]
				}
			}
			for _, k := range keys {
				ann[k] = c.Ann[k]
			}
			pod := &api.PodSandbox{Id: "pod1", Name: "p", Namespace: "ns", Annotations: ann}
			adj, _, err = p.CreateContainer(context.Background(), pod, sideCtr(c))
		}()
		if pan != nil {
			return &vfkit.Violation{Property: "C14", Clause: "every handler of the side plugins returns and never panics", Signature: "panic:memory-qos:CreateContainer",
				Detail: fmt.Sprintf("%+v: %v", *c, pan)}, nil, true
		}
		got := "err"
		if err == nil {
			got = "ok:" + sortedMap(adj.GetLinux().GetResources().GetUnified())
		}
		if round == 0 {
			first = got
		} else if got != first {
			return nil, &vfkit.Violation{Property: "C18", Clause: "the result does not depend on the order in which annotations are stored", Signature: "order-dependent:memory-qos",
				Detail: fmt.Sprintf("%+v: %q vs %q", *c, first, got)}, true
		}
	}
	// reference precedence (only judged for the well-formed configurations)
	eff := sideEffective(c.Ann, mqSuffix, c.Ctr)
	interpreted = len(eff) > 0
	if c.Config != "std" && c.Config != "nounified" {
		return nil, nil, interpreted
	}
	allowed := map[string]bool{}
	if c.Config == "std" {
		allowed["memory.high"], allowed["memory.swap.max"] = true, true
	}
	wantErr := false
	want := map[string]string{}
	for k, val := range eff {
		switch {
		case k == "class":
			switch val {
			case "swap":
				if c.Shape != 0 || c.MemLimit == 0 {
					wantErr = true // a class that needs the memory limit, which is absent
				}
				want["memory.swap.max"] = "max"
				want["memory.high"] = "<derived>"
			case "noswap":
			default:
				wantErr = true
			}
		case allowed[k]:
		default:
			wantErr = true
		}
	}
	for k, val := range eff { // explicit parameters always override class-derived ones
		if allowed[k] {
			want[k] = val
		}
	}
	if wantErr != (first == "err") {
		return nil, &vfkit.Violation{Property: "C18", Clause: "effective annotations decide acceptance", Signature: "acceptance-differs:memory-qos",
			Detail: fmt.Sprintf("%+v: effective %v, expected error=%v, got %q", *c, eff, wantErr, first)}, interpreted
	}
	if !wantErr {
		gotMap := map[string]string{}
		if first != "ok:" {
			for _, kv := range strings.Split(strings.TrimPrefix(first, "ok:"), ";") {
				i := strings.Index(kv, "=")
				gotMap[kv[:i]] = kv[i+1:]
			}
		}
		for k, val := range want {
			g, ok := gotMap[k]
			if !ok || (val != "<derived>" && g != val) {
				return nil, &vfkit.Violation{Property: "C18", Clause: "container-specific beats pod-wide; explicit parameter beats the class-derived one", Signature: "unified-value-differs:memory-qos",
					Detail: fmt.Sprintf("%+v: effective %v, expected %s=%q, got %q", *c, eff, k, val, first)}, interpreted
			}
		}
		if len(gotMap) != len(want) {
			return nil, &vfkit.Violation{Property: "C18", Clause: "annotations addressed to other containers have no effect", Signature: "unexpected-unified-keys:memory-qos",
				Detail: fmt.Sprintf("%+v: effective %v, expected keys %v, got %q", *c, eff, want, first)}, interpreted
		}
	}
	return nil, nil, interpreted
}

func TestVerifSideMemoryQos(t *testing.T) {
	defer vfkit.Flush()
	rapid.Check(t, func(t *rapid.T) {
		c := mqGen(t)
		v14, v18, interp := mqCheck(c)
		forms := 0
		seen := map[string]int{}
		for k := range c.Ann {
			if i := strings.Index(k, mqSuffix); i > 0 {
				seen[k[:i]]++
			}
		}
		for _, n := range seen {
			if n >= 2 {
				forms++
			}
		}
		vfkit.For("C14").Case("memory-qos", interp, vfkit.Hash(c), "config:"+strings.SplitN(c.Config, ":", 2)[0])
		vfkit.For("C18").Case("memory-qos", forms > 0, vfkit.Hash(c))
		if forms > 0 && vfkit.For("C18").WantSample() {
			vfkit.For("C18").Sample(c)
		}
		if interp && vfkit.For("C14").WantSample() {
			vfkit.For("C14").Sample(c)
		}
		if v14 != nil {
			vfkit.For("C14").Report(t, "memory-qos", v14, c)
		}
		if v18 != nil {
			vfkit.For("C18").Report(t, "memory-qos", v18, c)
		}
	})
}

func TestVerifSideMemoryQosReplay(t *testing.T) {
	c := &sideCase{}
	rf, ok, err := vfkit.LoadReplay(c)
	if !ok || rf.Unit != "memory-qos" {
		t.Skip("no replay file for this unit")
	}
	if err != nil {
		t.Fatalf("replay: %v", err)
	}
	v14, v18, _ := mqCheck(c)
	if v14 != nil {
		vfkit.For("C14").Report(t, "memory-qos", v14, c)
	}
	if v18 != nil {
		vfkit.For("C18").Report(t, "memory-qos", v18, c)
	}
}

//go:build verif

package kubernetes_test

import (
	"fmt"
	"testing"

	"pgregory.net/rapid"

	k8s "github.com/containers/nri-plugins/pkg/kubernetes"
	"github.com/containers/nri-plugins/pkg/zzverif/vfkit"
)

const c20 = "C20"

type c20CPUCase struct {
	Kind   string `json:"kind"`
	Milli  int64  `json:"milli,omitempty"`
	Shares int64  `json:"shares,omitempty"`
	Quota  int64  `json:"quota,omitempty"`
	Period int64  `json:"period,omitempty"`
	Got    int64  `json:"got"`
	Prev   int64  `json:"prev,omitempty"`
}

func abs64(a int64) int64 {
	if a < 0 {
		return -a
	}
	return a
}

// Exhaustive part: every request/limit 0..256 CPUs in 1 mCPU steps and the
// whole shares range.
func TestVerifC20CPUExhaustive(t *testing.T) {
	defer vfkit.Flush()
	st := vfkit.For(c20)
	unit := "cpu-exhaustive"
	fail := func(clause, sig string, c c20CPUCase) {
		st.Report(t, unit, &vfkit.Violation{Clause: clause, Signature: sig,
			Detail: fmt.Sprintf("%+v", c)}, c)
	}

	const maxMilli = 256000
	n, nt := 0, 0
	for m := int64(0); m <= maxMilli; m++ {
		shares := vfkit.RefMilliCPUToShares(m)
		got := k8s.SharesToMilliCPU(shares)
		tol := int64(1)
		if shares == vfkit.RefMinShares {
			tol = 2
		}
		c := c20CPUCase{Kind: "shares-roundtrip", Milli: m, Shares: shares, Got: got}
		if abs64(got-m) > tol {
			fail("shares round trip within tolerance", "shares-roundtrip-tolerance", c)
		}
		if m%125 == 0 && got != m {
			fail("shares round trip exact for multiples of 125", "shares-roundtrip-exact125", c)
		}
		q, p := vfkit.RefMilliCPUToQuota(m)
		gq := k8s.QuotaToMilliCPU(q, p)
		c = c20CPUCase{Kind: "quota-roundtrip", Milli: m, Quota: q, Period: p, Got: gq}
		if m >= 10 && gq != m {
			fail("quota round trip exact from 10 mCPU", "quota-roundtrip-exact", c)
		}
		n += 2
		if m > 0 {
			nt += 2
		}
	}
	st.Sample(c20CPUCase{Kind: "shares-roundtrip", Milli: 1999, Shares: vfkit.RefMilliCPUToShares(1999), Got: k8s.SharesToMilliCPU(vfkit.RefMilliCPUToShares(1999))})
	st.Count(unit, n, nt, "milli")

	// monotonicity over the whole shares range
	prev := int64(-1)
	for s := int64(vfkit.RefMinShares); s <= vfkit.RefMaxShares; s++ {
		got := k8s.SharesToMilliCPU(s)
		if got < prev {
			fail("SharesToMilliCPU monotone", "shares-monotone",
				c20CPUCase{Kind: "shares-monotone", Shares: s, Got: got, Prev: prev})
		}
		prev = got
	}
	st.Count(unit, vfkit.RefMaxShares-vfkit.RefMinShares+1, vfkit.RefMaxShares-vfkit.RefMinShares, "shares")

	// monotonicity over the whole quota range at the kubelet period, and at
	// the period bounds the kernel accepts (1ms .. 1s), in steps that keep the
	// loop bounded but hit every 1 mCPU boundary at the default period.
	for _, period := range []int64{1000, 10000, 100000, 1000000} {
		prev = -1
		maxQ := 256 * period
		step := int64(1)
		if maxQ > 30_000_000 {
			step = maxQ / 30_000_000
		}
		cnt := 0
		for q := int64(0); q <= maxQ; q += step {
			got := k8s.QuotaToMilliCPU(q, period)
			if got < prev {
				fail("QuotaToMilliCPU monotone", "quota-monotone",
					c20CPUCase{Kind: "quota-monotone", Quota: q, Period: period, Got: got, Prev: prev})
			}
			prev = got
			cnt++
		}
		st.Count(unit, cnt, cnt-1, fmt.Sprintf("quota@%d", period))
	}
	st.SetExhaustive(true)
}

// Random part of the CPU reconstruction: limits encoded the kubelet's way at a
// non-default CFS period (the kubelet's --cpu-cfs-quota-period, 2ms..1s; below
// 2ms the encoding itself loses more than half a mCPU) must reconstruct
// exactly from 10 mCPU upwards, and the reconstruction is monotone in quota
// for arbitrary accepted (quota, period) pairs.
func TestVerifC20Quota(t *testing.T) {
	defer vfkit.Flush()
	st := vfkit.For(c20)
	unit := "quota-random"
	rapid.Check(t, func(t *rapid.T) {
		period := rapid.Int64Range(2001, 1000000).Draw(t, "period")
		milli := rapid.Int64Range(10, 256000).Draw(t, "milli")
		quota := milli * period / 1000
		if quota < vfkit.RefMinQuota {
			quota = vfkit.RefMinQuota
		}
		got := k8s.QuotaToMilliCPU(quota, period)
		c := c20CPUCase{Kind: "quota-random", Milli: milli, Quota: quota, Period: period, Got: got}
		st.Case(unit, true, vfkit.Hash(c))
		if quota > vfkit.RefMinQuota && got != milli {
			st.Report(t, unit, &vfkit.Violation{Clause: "limit reconstructed exactly at a non-default period",
				Signature: "quota-roundtrip-period", Detail: fmt.Sprintf("%+v", c)}, c)
		}
		p2 := rapid.Int64Range(1000, 1000000).Draw(t, "period2")
		q1 := rapid.Int64Range(0, 256*p2).Draw(t, "q1")
		q2 := rapid.Int64Range(0, 256*p2).Draw(t, "q2")
		g1, g2 := k8s.QuotaToMilliCPU(q1, p2), k8s.QuotaToMilliCPU(q2, p2)
		if (q1 <= q2 && g1 > g2) || (q2 <= q1 && g2 > g1) {
			c = c20CPUCase{Kind: "quota-monotone", Quota: q1, Period: p2, Got: g1, Prev: g2}
			st.Report(t, unit, &vfkit.Violation{Clause: "QuotaToMilliCPU monotone",
				Signature: "quota-monotone", Detail: fmt.Sprintf("%+v q2=%d", c, q2)}, c)
		}
	})
}

type c20MemCase struct {
	Capacity int64  `json:"capacity"`
	Shape    string `json:"shape"`
	Adj      int64  `json:"adj,omitempty"`
	Req      int64  `json:"req,omitempty"`
	Back     int64  `json:"back,omitempty"`
	Panic    string `json:"panic,omitempty"`
}

var c20Primes = []int64{1048583, 16777259, 1073741827, 4294967311, 68719476767, 1099511627791, 17592186044423, 1125899906842679}

func genCapacity(t *rapid.T) (int64, string) {
	const MiB = int64(1) << 20
	shape := rapid.SampledFrom([]string{"log-uniform", "pow2pm", "pages", "prime", "gib-multiple", "decimal", "small"}).Draw(t, "shape")
	var c int64
	switch shape {
	case "log-uniform":
		bits := rapid.IntRange(20, 49).Draw(t, "bits")
		c = (int64(1) << bits) + rapid.Int64Range(0, (int64(1)<<bits)-1).Draw(t, "mant")
	case "pow2pm":
		bits := rapid.IntRange(20, 50).Draw(t, "bits")
		c = (int64(1) << bits) + rapid.Int64Range(-1000, 1000).Draw(t, "delta")
	case "pages":
		c = 4096 * rapid.Int64Range(256, (int64(1)<<50)/4096).Draw(t, "pages")
	case "prime":
		c = rapid.SampledFrom(c20Primes).Draw(t, "prime")
	case "gib-multiple":
		c = (int64(1) << 30) * rapid.Int64Range(1, 1<<20).Draw(t, "gib")
	case "decimal":
		c = 1000000 * rapid.Int64Range(2, 1000000000).Draw(t, "mb")
	case "small":
		c = rapid.Int64Range(MiB, 64*MiB).Draw(t, "small")
	}
	if c < MiB {
		c = MiB
	}
	if c > int64(1)<<50 {
		c = int64(1) << 50
	}
	return c, shape
}

func c20CheckCapacity(capacity int64, shape string) (*vfkit.Violation, c20MemCase) {
	c := c20MemCase{Capacity: capacity, Shape: shape}
	var pv any
	func() {
		defer func() { pv = recover() }()
		k8s.SetMemoryCapacity(capacity)
	}()
	if pv != nil {
		c.Panic = fmt.Sprint(pv)
		return &vfkit.Violation{Clause: "estimate table can be built for every capacity >= 1MiB",
			Signature: "oom-table-build-fails", Detail: fmt.Sprintf("%+v", c)}, c
	}
	if k8s.GetMemoryCapacity() != capacity {
		return &vfkit.Violation{Clause: "capacity stored", Signature: "oom-capacity-not-stored",
			Detail: fmt.Sprintf("%+v", c)}, c
	}
	for adj := int64(3); adj <= 999; adj++ {
		req := k8s.OomAdjToMemReq(adj, 0)
		if req == nil {
			c.Adj = adj
			return &vfkit.Violation{Clause: "every Burstable adjustment has an estimate",
				Signature: "oom-estimate-missing", Detail: fmt.Sprintf("%+v", c)}, c
		}
		back := k8s.MemReqToOomAdj(*req)
		// independent statement of the kubelet formula
		ref := vfkit.RefBurstableOomAdj(*req, capacity)
		if back != adj || ref != adj {
			c.Adj, c.Req, c.Back = adj, *req, back
			return &vfkit.Violation{Clause: "estimated request maps back to the same adjustment",
				Signature: "oom-roundtrip", Detail: fmt.Sprintf("%+v ref=%d", c, ref)}, c
		}
		if *req <= 0 || *req > capacity {
			c.Adj, c.Req = adj, *req
			return &vfkit.Violation{Clause: "estimate within (0, capacity]",
				Signature: "oom-estimate-range", Detail: fmt.Sprintf("%+v", c)}, c
		}
	}
	return nil, c
}

func TestVerifC20Memory(t *testing.T) {
	defer vfkit.Flush()
	st := vfkit.For(c20)
	unit := "memory"
	orig := k8s.GetMemoryCapacity()
	defer k8s.SetMemoryCapacity(orig)
	rapid.Check(t, func(t *rapid.T) {
		capacity, shape := genCapacity(t)
		v, c := c20CheckCapacity(capacity, shape)
		nontrivial := capacity%(int64(4)<<30) != 0
		st.Case(unit, nontrivial, fmt.Sprint(capacity), "shape:"+shape)
		if v != nil {
			st.Report(t, unit, v, c)
		}
		if st.WantSample() && nontrivial {
			if r := k8s.OomAdjToMemReq(500, 0); r != nil {
				c.Adj, c.Req, c.Back = 500, *r, k8s.MemReqToOomAdj(*r)
				st.Sample(c)
			}
		}
	})
}

func TestVerifC20Replay(t *testing.T) {
	var raw map[string]any
	rf, ok, err := vfkit.LoadReplay(&raw)
	if !ok {
		t.Skip("no replay file")
	}
	if err != nil {
		t.Fatalf("replay: %v", err)
	}
	switch rf.Unit {
	case "memory":
		var c c20MemCase
		_, _, _ = vfkit.LoadReplay(&c)
		orig := k8s.GetMemoryCapacity()
		defer k8s.SetMemoryCapacity(orig)
		if v, _ := c20CheckCapacity(c.Capacity, c.Shape); v != nil {
			t.Fatalf("%s: %s", v.Error(), v.Detail)
		}
	default:
		// the exhaustive units are their own replay
		TestVerifC20CPUExhaustive(t)
	}
}

//go:build verif && verifwb

package balloons

import (
	"sort"

	libmem "github.com/containers/nri-plugins/pkg/resmgr/lib/memory"
	policyapi "github.com/containers/nri-plugins/pkg/resmgr/policy"
)

// Read-only snapshots of the balloons policy for the verification harness.

type VerifBalloon struct {
	Def        string              `json:"def"`
	Instance   int                 `json:"instance"`
	Name       string              `json:"name"`
	Cpus       string              `json:"cpus"`
	SharedIdle string              `json:"shared_idle"`
	Pods       map[string][]string `json:"pods"`
	MinCpus    int                 `json:"min_cpus"`
	MaxCpus    int                 `json:"max_cpus"`
}

type VerifBalloonDef struct {
	Name        string `json:"name"`
	MinCpus     int    `json:"min_cpus"`
	MaxCpus     int    `json:"max_cpus"`
	MinBalloons int    `json:"min_balloons"`
	MaxBalloons int    `json:"max_balloons"`
	CpuClass    string `json:"cpu_class"`
	ShareIdle   string `json:"share_idle"`
	HideHT      bool   `json:"hide_ht"`
	PinMemory   *bool  `json:"pin_memory,omitempty"`
}

type VerifSnapshot struct {
	Allowed   string            `json:"allowed"`
	Reserved  string            `json:"reserved"`
	Free      string            `json:"free"`
	Defs      []VerifBalloonDef `json:"defs"`
	Balloons  []VerifBalloon    `json:"balloons"`
	PinCPU    bool              `json:"pin_cpu"`
	PinMem    bool              `json:"pin_mem"`
	IdleClass string            `json:"idle_class"`
}

func VerifSnap(b policyapi.Backend) *VerifSnapshot {
	p, ok := b.(*balloons)
	if !ok || p.bpoptions == nil {
		return nil
	}
	s := &VerifSnapshot{Allowed: p.allowed.String(), Reserved: p.reserved.String(), Free: p.freeCpus.String(),
		IdleClass: p.bpoptions.IdleCpuClass}
	if p.bpoptions.PinCPU != nil {
		s.PinCPU = *p.bpoptions.PinCPU
	}
	if p.bpoptions.PinMemory != nil {
		s.PinMem = *p.bpoptions.PinMemory
	}
	for _, d := range p.bpoptions.BalloonDefs {
		vd := VerifBalloonDef{Name: d.Name, MinCpus: d.MinCpus, MaxCpus: d.MaxCpus, MinBalloons: d.MinBalloons,
			MaxBalloons: d.MaxBalloons, CpuClass: d.CpuClass, ShareIdle: string(d.ShareIdleCpusInSame), PinMemory: d.PinMemory}
		if d.HideHyperthreads != nil {
			vd.HideHT = *d.HideHyperthreads
		}
		s.Defs = append(s.Defs, vd)
	}
	for _, bln := range p.balloons {
		vb := VerifBalloon{Def: bln.Def.Name, Instance: bln.Instance, Name: bln.PrettyName(), Cpus: bln.Cpus.String(),
			SharedIdle: bln.SharedIdleCpus.String(), Pods: map[string][]string{}, MinCpus: bln.Def.MinCpus, MaxCpus: bln.Def.MaxCpus}
		for pod, ctrs := range bln.PodIDs {
			cs := append([]string{}, ctrs...)
			sort.Strings(cs)
			vb.Pods[pod] = cs
		}
		s.Balloons = append(s.Balloons, vb)
	}
	sort.Slice(s.Balloons, func(i, j int) bool { return s.Balloons[i].Name < s.Balloons[j].Name })
	return s
}

func VerifAllocator(b policyapi.Backend) *libmem.Allocator {
	if p, ok := b.(*balloons); ok {
		return p.memAllocator
	}
	return nil
}

#!/bin/bash
# Runs the pinned baseline suite of /repo (command from /root/.vp/BASELINE.json) in a
# scratch worktree of the given ref (default: the working tree's HEAD) and compares
# with the stable_pass list. Prints the stable tests that did not pass.
set -u
REF=${1:-HEAD}
WT=$(mktemp -d /tmp/vbase-XXXXXX); rmdir "$WT"
git -C /repo worktree add --detach "$WT" "$REF" >/dev/null 2>&1 || { echo "worktree failed"; exit 3; }
trap 'git -C /repo worktree remove --force "$WT" >/dev/null 2>&1; rm -rf "$WT"' EXIT
OUT=$(mktemp /tmp/vbase-out-XXXXXX.json)
for m in $(cat /w/out/gomods.txt); do
  MF=$(cd "$WT/$m" && . /w/out/goenv.sh && gomodflag)
  (cd "$WT/$m" && . /w/out/goenv.sh && go test $MF -json -vet=off -count=1 -timeout 25m ./...) >> "$OUT" 2>/dev/null
done
python3 - "$OUT" <<'PY'
import json,sys
passed=set()
for l in open(sys.argv[1]):
    try: e=json.loads(l)
    except Exception: continue
    if e.get("Action")=="pass" and e.get("Test"):
        passed.add(e["Package"]+"::"+e["Test"])
stable=json.load(open("/root/.vp/BASELINE.json"))["stable_pass"]
missing=[t for t in stable if t not in passed]
print("stable tests: %d, passing now: %d, missing: %d"%(len(stable),len(stable)-len(missing),len(missing)))
for t in missing[:40]: print("  MISSING",t)
sys.exit(1 if missing else 0)
PY
rc=$?
rm -f "$OUT"
exit $rc
